// rapidcheck generators shared by the property binaries.  Every random choice goes through
// rapidcheck so that shrinking and the driver's seed fully determine a run.
#pragma once
#include "rc.hpp"
#include "model.hpp"
#include "lib.hpp"
#include <algorithm>

namespace g {
using rc::Gen;

inline Gen<std::vector<uint8_t>> secret19() {
    // weights: uniform, all-zero, all-one, single bit, top bits of byte 18, low-weight
    return rc::gen::resize(100, rc::gen::weightedOneOf<std::vector<uint8_t>>({
        {12, vf::bytes(19)},
        {1, rc::gen::just(std::vector<uint8_t>(19, 0))},
        {1, rc::gen::just(std::vector<uint8_t>(19, 0xFF))},
        {2, rc::gen::map(rc::gen::inRange(0, 152), [](int b) { std::vector<uint8_t> v(19, 0); v[b / 8] = (uint8_t)(0x80 >> (b % 8)); return v; })},
        {1, rc::gen::map(vf::bytes(19), [](std::vector<uint8_t> v) { v[18] |= 0xC0; return v; })},
        {1, rc::gen::map(rc::gen::pair(rc::gen::inRange(0, 152), rc::gen::inRange(0, 152)), [](std::pair<int, int> p) { std::vector<uint8_t> v(19, 0); v[p.first / 8] |= (uint8_t)(0x80 >> (p.first % 8)); v[p.second / 8] |= (uint8_t)(0x80 >> (p.second % 8)); return v; })},
    }));
}
inline Gen<int> birthday() {
    return rc::gen::resize(100, rc::gen::weightedOneOf<int>({{10, rc::gen::inRange(0, 1024)}, {3, rc::gen::element(0, 1, 511, 512, 1023, 1022, 513)}}));
}
inline Gen<int> coin() {
    return rc::gen::resize(100, rc::gen::weightedOneOf<int>({{10, rc::gen::inRange(0, 2048)}, {3, rc::gen::element(0, 1, 2, 3, 1023, 1024, 2047)}, {2, rc::gen::map(rc::gen::inRange(0, 11), [](int b) { return 1 << b; })}}));
}
inline Gen<int> lang_index() { return rc::gen::resize(100, rc::gen::inRange(0, (int)lib::Registry::get().size())); }

inline model::Seed to_seed(const std::vector<uint8_t>& sec, int birthday, unsigned features) {
    model::Seed s; for (int i = 0; i < 19; i++) s.secret[i] = sec[i]; s.secret[18] &= 0x3F; s.birthday = (unsigned)birthday; s.features = features; return s;
}

// Build a library seed object holding abstract seed `want` through the *create* path only
// (random source, clock, feature mask, optional crypt with a fixed KDF mask).  No model of the
// storage format or of the packing is involved.  Kit 0 must be the injected set.
// `rand_top` supplies the two top bits of byte 18 the random source delivers (they must be dropped).
inline polyseed_data* build_by_create(const model::Seed& want, unsigned enabled_mask, unsigned rand_top, std::string* err, uint64_t clock_offset = 0) {
    deps::Kit& k = deps::kit(0);
    polyseed_enable_features(enabled_mask);
    bool enc = (want.features & 16u) != 0;
    std::vector<uint8_t> r(want.secret.begin(), want.secret.end());
    uint8_t mask[32];
    if (enc) { // choose the plaintext so that after one crypt with `mask` the secret equals want.secret
        vf::SplitMix sm(vf::fnv1a(want.secret.data(), 19) ^ 0x1234); for (int i = 0; i < 32; i++) mask[i] = (uint8_t)sm.next();
        for (int i = 0; i < 19; i++) r[i] ^= mask[i];
    }
    r[18] = (uint8_t)((r[18] & 0x3F) | ((rand_top & 3u) << 6));
    k.rand_bytes = r; k.rand_pos = 0; k.clock = model::birthday_time(want.birthday) + clock_offset;
    polyseed_data* s = nullptr;
    int st = polyseed_create(want.features & 7u, &s);
    if (st != 0) { if (err) *err = std::string("create returned ") + model::status_name(st); return nullptr; }
    if (enc) {
        auto save_mode = k.kdf_mode; uint8_t save[32]; memcpy(save, k.kdf_fixed, 32);
        k.kdf_mode = deps::KDF_FIXED; memcpy(k.kdf_fixed, mask, 32);
        polyseed_crypt(s, "pw");
        k.kdf_mode = save_mode; memcpy(k.kdf_fixed, save, 32);
    }
    return s;
}

// everything observable about a seed object through the public API
struct Obs {
    lib::Image image; uint64_t birthday; unsigned feat[8]; unsigned feat_hi; int enc; std::string kdf;
    bool operator==(const Obs& o) const { return image == o.image && birthday == o.birthday && !memcmp(feat, o.feat, sizeof feat) && feat_hi == o.feat_hi && enc == o.enc && kdf == o.kdf; }
    std::string str() const { std::string s = "image=" + vf::hex(image.data(), 32) + " birthday=" + std::to_string(birthday) + " enc=" + std::to_string(enc) + " feat="; for (int i = 0; i < 8; i++) s += std::to_string(feat[i]) + ","; s += " kdf{" + kdf + "}"; return s; }
};
inline Obs observe(const polyseed_data* s, unsigned kcoin, size_t ksize) {
    Obs o; o.image = lib::store(s); o.birthday = polyseed_get_birthday(s);
    for (unsigned m = 0; m < 8; m++) o.feat[m] = polyseed_get_feature(s, m);
    o.feat_hi = polyseed_get_feature(s, 0xFFFFFFFFu); o.enc = polyseed_is_encrypted(s);
    std::vector<uint8_t> key(ksize ? ksize : 1, 0);
    deps::KdfCall c = lib::keygen_call(deps::kit(0), s, kcoin, ksize, key.data());
    o.kdf = lib::kdf_str(c) + " keyptr_ok=" + (c.key == key.data() ? "1" : "0");
    return o;
}

// word classes taken from the golden lists (used only to *bias* generation; a case that cannot
// be constructed is discarded and counted, never reported)
struct WordClasses {
    std::map<std::string, std::vector<int>> longest;   // language name -> indices of the longest words (by NFKD bytes)
    std::vector<int> zh_common;                        // indices i with zh_s[i] == zh_t[i]
    static const WordClasses& get() {
        static WordClasses w; static bool init = false;
        if (!init) {
            init = true; const model::Golden& g = model::Golden::get();
            for (auto& l : g.langs) {
                std::vector<int> idx(2048); for (int i = 0; i < 2048; i++) idx[i] = i;
                std::stable_sort(idx.begin(), idx.end(), [&](int a, int b) { return l.words[a].size() > l.words[b].size(); });
                idx.resize(48); w.longest[l.name_en] = idx;
            }
            const model::Lang* s = g.by_name("Chinese (Simplified)"); const model::Lang* t = g.by_name("Chinese (Traditional)");
            if (s && t) for (int i = 0; i < 2048; i++) if (s->words[i] == t->words[i]) w.zh_common.push_back(i);
        }
        return w;
    }
};

// Abstract seed whose phrase (for `coin`) shows the given 15 data-word indices at words 2..16.
// shown[2] (word 3) must be even: its low bit is the reserved feature bit no seed may carry.
inline model::Seed seed_showing(const std::array<unsigned, 16>& shown, unsigned coin) {
    std::array<unsigned, 16> c = shown; c[1] ^= coin; c[2] &= ~1u; return model::unpack(c);
}


// ---- seeds described at the level of the 16 word indices.  Conditions a decoder/encoder might (wrongly) special-case are usually
// stated on the coefficients - a word equal to its neighbour, to the check word, to the coin, index 0 or 2047, all words equal - and a
// uniform 150-bit secret meets each of them with probability 2^-11 or less per pair.  `shown` are the indices the phrase shows for `coin`.
struct SeedCoin { std::vector<uint8_t> sec; int bd = 0; unsigned feat = 0; int coin = 0; bool patterned = false; };
inline unsigned check_of_shown(const std::array<unsigned, 16>& shown, unsigned coin) { return model::pack(seed_showing(shown, coin))[0]; }
inline Gen<SeedCoin> patterned_seed() {
    return rc::gen::exec([]() {
        static const unsigned SPEC[] = {0, 1, 2, 3, 4, 255, 256, 511, 512, 1022, 1023, 1024, 1025, 2046, 2047};
        auto special = [&]() -> unsigned { return SPEC[*rc::gen::resize(100, rc::gen::inRange<size_t>(0, 15))]; };
        auto rnd = [&]() -> unsigned { return *rc::gen::resize(100, rc::gen::inRange<unsigned>(0, 2048)); };
        auto anyv = [&]() -> unsigned { return *rc::gen::resize(100, rc::gen::inRange(0, 3)) ? rnd() : special(); };
        auto pos = [&](int lo, int hi) -> int { return *rc::gen::resize(100, rc::gen::inRange(lo, hi)); };
        std::array<unsigned, 16> sh{}; for (int i = 1; i < 16; i++) sh[i] = rnd();
        unsigned coin = (unsigned)*::g::coin();
        switch (pos(0, 9)) {
        case 0: { unsigned v = anyv(); for (int i = 1; i < 16; i++) sh[i] = v; } break;                                            // all data words equal
        case 1: { unsigned a = special(), b = special(); for (int i = 1; i < 16; i++) sh[i] = pos(0, 2) ? a : b; } break;              // two values only
        case 2: { unsigned v = anyv(); int n = pos(2, 6); for (int j = 0; j < n; j++) sh[pos(1, 16)] = v; } break;                    // one value at several positions
        case 3: { unsigned v = anyv(); unsigned step = *rc::gen::element(1u, 2047u, 2u, 64u, 1024u); for (int i = 1; i < 16; i++) sh[i] = (v + (unsigned)(i - 1) * step) & 2047u; } break;   // runs
        case 4: { for (int i = 1; i < 16; i++) sh[i] = special(); } break;                                                        // boundary indices everywhere
        case 5: { int p = pos(1, 15); if (pos(0, 2)) sh[p] = special(); sh[p + 1] = sh[p]; } break;                                // adjacent equal pair
        case 6: { sh[15] = sh[1]; if (pos(0, 2)) sh[8] = sh[1]; } break;                                                        // first = last data word
        case 7: { int n = pos(1, 4); for (int j = 0; j < n; j++) sh[pos(1, 16)] = special(); } break;                                // a few boundary indices
        default: { for (int i = 1; i < 16; i++) sh[i] = sh[i] & (pos(0, 2) ? 0x7FEu : 0x401u); } break;                                // sparse bit patterns
        }
        switch (pos(0, 8)) {   // relations between the coin and the words
        case 0: coin = sh[1]; break; case 1: coin = sh[pos(2, 16)]; break; case 2: coin = sh[1] ^ 2047u; break; case 3: coin = special(); break; default: break;
        }
        sh[2] &= ~1u;
        int target = pos(0, 6);   // relations between the check word and the rest: exactly one value of the last data word gives each check word
        if (target < 4) { unsigned want = target == 0 ? 0u : target == 1 ? 2047u : target == 2 ? sh[pos(1, 15)] : coin;
            for (unsigned v = 0; v < 2048; v++) { auto t = sh; t[15] = v; if (check_of_shown(t, coin) == want) { sh = t; break; } } }
        model::Seed ms = seed_showing(sh, coin); SeedCoin r; r.sec.assign(ms.secret.begin(), ms.secret.begin() + 19); r.bd = (int)ms.birthday; r.feat = ms.features & 0x17u; r.coin = (int)coin; r.patterned = true; return r;
    });
}
// the usual mix: mostly independent uniform / edge-weighted fields, one case in six patterned at the word level
inline Gen<SeedCoin> seed_coin() {
    return rc::gen::weightedOneOf<SeedCoin>({{5, rc::gen::exec([]() { SeedCoin r; r.sec = *secret19(); r.bd = *birthday(); r.feat = *rc::gen::resize(100, rc::gen::inRange<unsigned>(0, 32)) & 0x17u; r.coin = *::g::coin(); return r; })}, {1, patterned_seed()}});
}
} // namespace g
