// rapidcheck glue: run a property with explicit parameters (seed / count / size from the
// driver, never from the environment or the clock) and report through vf::record_failure.
#pragma once
#include <rapidcheck.h>
#include <iostream>
#include <sstream>
#include "util.hpp"

namespace vf {

// Thrown/used by oracles: a failure message.  Properties call fail_case() which records the
// replay file (overwritten on every failing execution => last one is the shrunk case) and
// then fails the rapidcheck case.
#define VF_FAIL(casevar, msg) do { if (::vf::W().stop_after_history_failure) break; int vf_k_ = ::vf::classify_failure((casevar), (msg)); if (vf_k_ == 0) break; if (vf_k_ == 1) ::vf::record_failure((casevar), (msg)); RC_FAIL(std::string(msg)); } while (0)

template <typename F>
bool rc_run(const std::string& name, long cases, int max_size, F&& property) {
    using namespace rc::detail;
    Worker& w = W();
    TestParams p; p.seed = mix64(w.args.seed * 1000003ull + (uint64_t)w.args.worker * 7919ull + fnv1a(name) + fnv1a(w.args.variant) * 31ull);   // every (seed, worker, property, build variant) explores different cases if (p.seed == 0) p.seed = 1;
    p.maxSuccess = (int)cases; p.maxSize = max_size; p.maxDiscardRatio = 20;
    TestMetadata md; md.id = name; md.description = name;
    int before = w.failures;
    const auto result = checkTestable(std::forward<F>(property), md, p);
    bool ok = result.template is<SuccessResult>();
    if (!ok) {
        std::ostringstream os; printResultMessage(result, os);
        std::string msg = os.str();
        fprintf(stderr, "[%s w%d] property '%s' did not pass:\n%s\n", w.args.id.c_str(), w.args.worker, name.c_str(), msg.c_str());
        if (result.template is<GaveUpResult>() || result.template is<Error>()) {
            // generator problem, not a defect of the code under test
            printf("WARNING generator-gave-up property=%s name=%s\n", w.args.id.c_str(), name.c_str());
            w.ev.note("generator gave up or errored in '" + name + "': " + msg);
            return true;
        }
        if (w.failures == before) { // failed through a plain RC_ASSERT without a recorded case
            Case c; c.set("name", name); c.set("rapidcheck", msg); record_failure(c, "rapidcheck failure without recorded case");
        }
    }
    return ok;
}

// generators that do not collapse at small sizes
template <typename T> rc::Gen<T> in_range(T lo, T hi_exclusive) { return rc::gen::resize(100, rc::gen::inRange<T>(lo, hi_exclusive)); }
inline rc::Gen<std::vector<uint8_t>> bytes(size_t n) { return rc::gen::container<std::vector<uint8_t>>(n, rc::gen::resize(100, rc::gen::arbitrary<uint8_t>())); }
inline rc::Gen<uint64_t> u64() { return rc::gen::resize(100, rc::gen::arbitrary<uint64_t>()); }

} // namespace vf
