// Thin C++ conveniences over the public polyseed API (no knowledge of internals).
#pragma once
#include <polyseed.h>
#include <string>
#include <vector>
#include <array>
#include <cstring>
#include "util.hpp"
#include "model.hpp"
#include "deps.hpp"

namespace lib {

struct LangEntry { const polyseed_lang* lang; std::string name_en, name; const model::Lang* golden; int reg_index; };

// Languages are identified by English name only; registry order and extra languages are tolerated.
struct Registry {
    std::vector<LangEntry> langs;
    static const Registry& get() {
        static Registry r; static bool init = false;
        if (!init) {
            init = true; int n = polyseed_get_num_langs();
            const model::Golden& g = model::Golden::get();
            for (int i = 0; i < n; i++) {
                const polyseed_lang* l = polyseed_get_lang(i);
                LangEntry e; e.lang = l; e.name_en = polyseed_get_lang_name_en(l); e.name = polyseed_get_lang_name(l); e.golden = g.by_name(e.name_en); e.reg_index = i;
                r.langs.push_back(e);
            }
        }
        return r;
    }
    size_t size() const { return langs.size(); }
    const LangEntry& at(size_t i) const { return langs[i % langs.size()]; }
    const LangEntry* by_name(const std::string& n) const { for (auto& e : langs) if (e.name_en == n) return &e; return nullptr; }
    const LangEntry* by_ptr(const polyseed_lang* p) const { for (auto& e : langs) if (e.lang == p) return &e; return nullptr; }
};

using Image = std::array<uint8_t, 32>;
inline Image store(const polyseed_data* s) { Image b; b.fill(0xC3); /* what the caller's buffer held before is irrelevant */ polyseed_store(s, b.data()); return b; }
inline model::Seed abstract(const polyseed_data* s) { // abstract seed read back through the serialisation only
    Image b = store(s); model::Seed m; memcpy(m.secret.data(), b.data() + 10, 19); unsigned v = b[8] | (b[9] << 8); m.birthday = v & 1023u; m.features = (v >> 10) & 31u; return m;
}
inline std::string encode(const polyseed_data* s, const polyseed_lang* l, unsigned coin, size_t* ret = nullptr) {
    // exactly-sized heap buffer: an overrun of the caller's buffer hits an ASan red zone
    char* buf = (char*)malloc(POLYSEED_STR_SIZE); memset(buf, 0x7E, POLYSEED_STR_SIZE);
    size_t n = polyseed_encode(s, l, (polyseed_coin)coin, buf);
    if (ret) *ret = n;
    size_t len = strnlen(buf, POLYSEED_STR_SIZE);
    std::string out(buf, len); free(buf); return out;
}
// build a seed object holding exactly the abstract seed m (through polyseed_load of the model image);
// returns the status, seed in *out on OK.
inline int load_model(const model::Seed& m, polyseed_data** out) { Image b = model::image(m); return (int)polyseed_load(b.data(), out); }

struct SeedPtr {
    polyseed_data* p = nullptr;
    SeedPtr() = default; explicit SeedPtr(polyseed_data* q) : p(q) {}
    SeedPtr(const SeedPtr&) = delete; SeedPtr& operator=(const SeedPtr&) = delete;
    SeedPtr(SeedPtr&& o) noexcept : p(o.p) { o.p = nullptr; }
    ~SeedPtr() { if (p) polyseed_free(p); }
    void reset() { if (p) polyseed_free(p); p = nullptr; }
    polyseed_data** out() { reset(); return &p; }
    operator polyseed_data*() const { return p; }
};

// the recorded KDF inputs of keygen for a seed (kit 0 or 1 must be the current set)
inline deps::KdfCall keygen_call(deps::Kit& k, const polyseed_data* s, unsigned coin, size_t keysize, uint8_t* key) {
    size_t before = k.kdf.size(); polyseed_keygen(s, (polyseed_coin)coin, keysize, key);
    if (k.kdf.size() != before + 1) { deps::KdfCall c; c.iterations = (uint64_t)-1; c.keylen = k.kdf.size() - before; return c; }
    return k.kdf.back();
}
inline std::string kdf_str(const deps::KdfCall& c) {
    return "pw=" + vf::hex(c.pw) + " pwlen=" + std::to_string(c.pwlen) + " salt=" + vf::hex(c.salt) + " saltlen=" + std::to_string(c.saltlen) + " it=" + std::to_string(c.iterations) + " keylen=" + std::to_string(c.keylen);
}

} // namespace lib

namespace lib {

// tokens of a library-produced phrase, model-free: NFKD (turns the ideographic space into U+0020), split on ' '
inline std::vector<std::string> tokens(const std::string& phrase) {
    std::string d = model::nfkd(phrase); std::vector<std::string> t; size_t p = 0;
    for (;;) { size_t e = d.find(' ', p); if (e == std::string::npos) { t.push_back(d.substr(p)); break; } t.push_back(d.substr(p, e - p)); p = e + 1; }
    return t;
}
inline std::string join(const std::vector<std::string>& t, const std::string& sep = " ") { std::string s; for (size_t i = 0; i < t.size(); i++) { if (i) s += sep; s += t[i]; } return s; }

// A seed object whose secret, birthday and features are all zero, built through create only.
inline polyseed_data* zero_seed() {
    deps::Kit& k = deps::kit(0); k.rand_bytes.assign(19, 0); k.rand_pos = 0; k.clock = model::EPOCH;
    polyseed_data* s = nullptr; if (polyseed_create(0, &s) != 0) return nullptr; return s;
}

// Index -> word table of a language taken from the library itself: the second word of the zero
// seed's phrase for coin k is word k (the coin is XORed into word 2).  Words are NFKD tokens.
// `ok` is false when the table is not self-consistent (then callers skip, they do not report).
struct LibWords { std::vector<std::string> w; bool ok = false; std::string why; };
inline const LibWords& lib_words(const LangEntry& le) {
    static std::map<const polyseed_lang*, LibWords> cache;
    auto it = cache.find(le.lang); if (it != cache.end()) return it->second;
    LibWords lw; polyseed_data* z = zero_seed();
    if (!z) { lw.why = "cannot create the zero seed"; return cache[le.lang] = lw; }
    lw.w.resize(2048); std::map<std::string, int> seen; bool good = true;
    for (unsigned k = 0; k < 2048 && good; k++) {
        auto t = tokens(encode(z, le.lang, k));
        if (t.size() != 16) { good = false; lw.why = "zero-seed phrase does not have 16 tokens"; break; }
        lw.w[k] = t[1];
        if (seen.count(t[1])) { good = false; lw.why = "coin " + std::to_string(k) + " and coin " + std::to_string(seen[t[1]]) + " show the same second word"; }
        seen[t[1]] = (int)k;
        for (int j = 0; j < 16; j++) if (j != 1 && k > 0 && t[j] != lw.w[0]) { good = false; lw.why = "zero-seed phrase has unequal words outside position 2"; }
    }
    polyseed_free(z);
    if (good) { // 16 x word 0 must be a valid phrase (all-zero polynomial)
        std::vector<std::string> t(16, lw.w[0]); polyseed_data* s = nullptr;
        int st = polyseed_decode_explicit(join(t).c_str(), (polyseed_coin)0, le.lang, &s);
        if (st == 0) polyseed_free(s); else { good = false; lw.why = std::string("16 x word[0] decodes to ") + model::status_name(st); }
    }
    lw.ok = good; return cache[le.lang] = lw;
}

inline int decode_x(const std::string& phrase, unsigned coin, const polyseed_lang* l, Image* img = nullptr) {
    polyseed_data* s = nullptr; int st = (int)polyseed_decode_explicit(phrase.c_str(), (polyseed_coin)coin, l, &s);
    if (st == 0) { if (img) *img = store(s); polyseed_free(s); }
    return st;
}
inline int decode_auto(const std::string& phrase, unsigned coin, const polyseed_lang** lo = nullptr, Image* img = nullptr) {
    polyseed_data* s = nullptr; int st = (int)polyseed_decode(phrase.c_str(), (polyseed_coin)coin, lo, &s);
    if (st == 0) { if (img) *img = store(s); polyseed_free(s); }
    return st;
}

} // namespace lib
