// rapidcheck generator for operation sequences (ops.hpp)
#pragma once
#include "rc.hpp"
#include "ops.hpp"
namespace seqgen {
struct Weights { int w[ops::NCODES]; };
inline rc::Gen<ops::Op> op(const Weights& wt) {
    using namespace rc;
    std::vector<uint8_t> table; for (int c = 0; c < ops::NCODES; c++) for (int i = 0; i < wt.w[c]; i++) table.push_back((uint8_t)c);
    return gen::apply([](uint8_t c, uint8_t a, uint8_t b, uint8_t d) { return ops::Op{c, a, b, d}; }, gen::elementOf(table), gen::arbitrary<uint8_t>(), gen::arbitrary<uint8_t>(), gen::arbitrary<uint8_t>());
}
inline rc::Gen<std::vector<ops::Op>> sequence(const Weights& wt, int maxlen) { return rc::gen::resize(maxlen, rc::gen::container<std::vector<ops::Op>>(rc::gen::resize(100, op(wt)))); }
} // namespace seqgen
namespace rc { template <> struct Arbitrary<ops::Op> { static Gen<ops::Op> arbitrary() { return gen::apply([](uint8_t c, uint8_t a, uint8_t b, uint8_t d) { return ops::Op{(uint8_t)(c % ops::NCODES), a, b, d}; }, gen::arbitrary<uint8_t>(), gen::arbitrary<uint8_t>(), gen::arbitrary<uint8_t>(), gen::arbitrary<uint8_t>()); } };
inline void showValue(const ops::Op& o, std::ostream& os) { os << ops::code_name(o.code) << "(" << (int)o.a << "," << (int)o.b << "," << (int)o.c << ")"; } }
