// Oracle shared by C09 (auto-detection vs explicit decoding, precedence, token boundaries) and
// C14 (safety/totality): the library's two decoders are compared with each other on the same
// string, plus a reference tokenizer written from the property text.  No rapidcheck here (also
// used inside the libFuzzer target).
#pragma once
#include "lib.hpp"

namespace dor {

struct Result {
    std::vector<int> E;       // decode_explicit status per registered language
    int R = 0;                // languages that recognise all tokens
    int st = -1;              // decode (auto) status
    int tokens = -1;          // reference token count (-1: not applicable)
    bool fits = false, valid_utf8 = false, nonascii = false;
    std::string cls;
};

inline int ref_token_count(const std::string& norm) { // split on single U+0020, drop at most one trailing empty token
    std::vector<std::string> t; size_t p = 0;
    for (;;) { size_t e = norm.find(' ', p); if (e == std::string::npos) { t.push_back(norm.substr(p)); break; } t.push_back(norm.substr(p, e - p)); p = e + 1; }
    if (!t.empty() && t.back().empty()) t.pop_back();
    return (int)t.size();
}
inline bool ref_has_empty_token(const std::string& norm) {
    std::vector<std::string> t; size_t p = 0;
    for (;;) { size_t e = norm.find(' ', p); if (e == std::string::npos) { t.push_back(norm.substr(p)); break; } t.push_back(norm.substr(p, e - p)); p = e + 1; }
    if (!t.empty() && t.back().empty()) t.pop_back();
    for (auto& x : t) if (x.empty()) return true; return false;
}

// Runs every decoder on `s` (cut at its first NUL).  Returns "" or a violation message.
// c14_only: skip the semantic (C09) comparisons and keep the safety/totality ones.
inline std::string check(const std::string& input, unsigned coin, bool with_alloc_fail, Result* res, bool c14_only = false) {
    const bool ledger = c14_only;   // "a failed call leaves no seed allocated" is part of C14 (and C15), not of C09
    const lib::Registry& REG = lib::Registry::get(); deps::Kit& k = deps::kit(0);
    std::string s = input.substr(0, input.find('\0'));
    // exactly-sized heap copy: any read past the terminator or write into the input hits a red zone / is detected
    char* buf = (char*)malloc(s.size() + 1); memcpy(buf, s.c_str(), s.size() + 1);
    Result r; r.E.resize(REG.size());
    for (unsigned char ch : s) if (ch >= 0x80) r.nonascii = true;
    r.valid_utf8 = model::valid_utf8(s); std::string norm = r.valid_utf8 ? model::nfkd(s) : std::string(); r.fits = r.valid_utf8 && norm.size() <= POLYSEED_STR_SIZE - 1;
    size_t live0 = k.live.size(); std::string err; int recog = -1; lib::Image img_x{}; bool any_numw = false, all_numw = true;
    for (size_t li = 0; li < REG.size() && err.empty(); li++) {
        polyseed_data* sd = nullptr; int st = (int)polyseed_decode_explicit(buf, (polyseed_coin)coin, REG.langs[li].lang, &sd); r.E[li] = st;
        if (st < 0 || st > 7 || st == model::FORMAT || st == model::MULT_LANG) err = std::string("decode_explicit returned the undocumented status ") + std::to_string(st);
        else if (st == 0) { if (!sd || (ledger && k.live.size() != live0 + 1)) err = "decode_explicit returned OK without exactly one new seed block"; else { if (r.R == 0) img_x = lib::store(sd); polyseed_free(sd); } }
        if (err.empty() && ledger && k.live.size() != live0) err = std::string("decode_explicit (") + model::status_name(st) + "): a seed block is left allocated";
        if (st == model::NUM_WORDS) any_numw = true; else all_numw = false;
        if (st != model::NUM_WORDS && st != model::LANG) { r.R++; recog = (int)li; }
        if (memcmp(buf, s.c_str(), s.size() + 1) != 0) err = "decode_explicit modified its input string";
    }
    // what the caller's lang_out variable holds before the call is irrelevant: it starts as some registered language (or NULL), chosen from the input
    uint64_t hin = vf::fnv1a((const uint8_t*)s.data(), s.size()); size_t pick = (size_t)(hin % (REG.size() + 1));
    const polyseed_lang* lo = pick < REG.size() ? REG.langs[pick].lang : nullptr; polyseed_data* sd = nullptr; lib::Image img_a{};
    if (err.empty()) {
        r.st = (int)polyseed_decode(buf, (polyseed_coin)coin, &lo, &sd);
        if (r.st < 0 || r.st > 7 || r.st == model::FORMAT) err = std::string("decode returned the undocumented status ") + std::to_string(r.st);
        else if (r.st == 0) { if (!sd || (ledger && k.live.size() != live0 + 1)) err = "decode returned OK without exactly one new seed block"; else { img_a = lib::store(sd); polyseed_free(sd); } }
        if (err.empty() && ledger && k.live.size() != live0) err = std::string("decode (") + model::status_name(r.st) + "): a seed block is left allocated";
        if (err.empty() && memcmp(buf, s.c_str(), s.size() + 1) != 0) err = "decode modified its input string";
    }
    if (err.empty()) { // the optional lang_out pointer must not influence the outcome
        polyseed_data* sn = nullptr; int stn = (int)polyseed_decode(buf, (polyseed_coin)coin, nullptr, &sn); lib::Image in{}; if (stn == 0 && sn) { in = lib::store(sn); polyseed_free(sn); }
        if (stn != r.st) err = std::string("decode with lang_out = NULL returned ") + model::status_name(stn) + " but " + model::status_name(r.st) + " with a lang_out pointer";
        else if (stn == 0 && in != img_a) err = "decode with lang_out = NULL yields a different seed";
    }
    if (err.empty() && !c14_only && r.R >= 1) { // ... in particular when it already names a language that recognises the phrase
        for (size_t li = 0; li < REG.size() && err.empty(); li++) { if (r.E[li] == model::NUM_WORDS || r.E[li] == model::LANG) continue;
            const polyseed_lang* lh = REG.langs[li].lang; polyseed_data* sh = nullptr; int sth = (int)polyseed_decode(buf, (polyseed_coin)coin, &lh, &sh); lib::Image ih{}; if (sth == 0 && sh) { ih = lib::store(sh); polyseed_free(sh); }
            if (sth != r.st) err = std::string("decode returns ") + model::status_name(sth) + " when the lang_out variable already holds " + REG.langs[li].name_en + ", and " + model::status_name(r.st) + " otherwise";
            else if (sth == 0 && (ih != img_a || lh != lo)) err = "decode yields a different seed / language when the lang_out variable already holds " + REG.langs[li].name_en; }
    }
    if (err.empty() && ledger && !k.ledger_errors.empty()) err = "allocator ledger: " + k.ledger_errors[0];
    if (!ledger) { for (auto& b : k.live) free(b.first); k.live.clear(); k.ledger_errors.clear(); live0 = 0; }
    if (err.empty() && !c14_only) {
        int expect;
        if (any_numw) { expect = model::NUM_WORDS; if (!all_numw) err = "decode_explicit reports a wrong word count for some languages only"; }
        else if (r.R == 0) expect = model::LANG; else if (r.R >= 2) expect = model::MULT_LANG; else expect = r.E[recog];
        if (err.empty() && r.st != expect) {
            std::string es; for (size_t li = 0; li < REG.size(); li++) es += REG.langs[li].name_en + "=" + model::status_name(r.E[li]) + " ";
            err = std::string("decode (auto) returned ") + model::status_name(r.st) + " but explicit decoding gives {" + es + "} so it must be " + model::status_name(expect);
        }
        if (err.empty() && r.st == 0) { if (lo != REG.langs[recog].lang) err = "decode (auto) reports a language other than the one that recognises the phrase"; else if (img_a != img_x) err = "decode (auto) and decode_explicit yield different seeds"; }
        // token boundaries (only for strings whose NFKD form fits the buffer)
        if (err.empty() && r.fits) {
            r.tokens = ref_token_count(norm);
            if ((r.tokens != 16) != any_numw) err = "the string has " + std::to_string(r.tokens) + " tokens (single-space separated after NFKD, one trailing space allowed) but the decoders answer " + model::status_name(r.st);
            if (err.empty() && r.tokens == 16 && ref_has_empty_token(norm) && r.st != model::LANG) err = std::string("a phrase with an empty token must be a language error, got ") + model::status_name(r.st);
        }
    }
    // precedence with a failing allocator: only would-be OK / UNSUPPORTED outcomes may become MEMORY
    if (err.empty() && with_alloc_fail) {
        k.fail_all = true; uint64_t f0 = k.alloc_failed;
        polyseed_data* s2 = nullptr; const polyseed_lang* lo2 = nullptr; int st2 = (int)polyseed_decode(buf, (polyseed_coin)coin, &lo2, &s2);
        bool failed_alloc = k.alloc_failed > f0; k.fail_all = false;
        if (st2 == 0) { polyseed_free(s2); err = "decode returned OK although every allocation request failed"; }
        else if (failed_alloc) { if (st2 != model::MEMORY) err = std::string("allocation failed during decode but the status is ") + model::status_name(st2); else if (r.st != model::OK && r.st != model::UNSUPPORTED) err = std::string("a would-be ") + model::status_name(r.st) + " outcome turned into MEMORY (allocation attempted before the word count / language / checksum verdict)"; }
        else if (st2 != r.st) err = std::string("status changed from ") + model::status_name(r.st) + " to " + model::status_name(st2) + " under an armed (but unused) allocation failure";
        if (err.empty() && recog >= 0) {
            k.fail_all = true; f0 = k.alloc_failed; polyseed_data* s3 = nullptr; int st3 = (int)polyseed_decode_explicit(buf, (polyseed_coin)coin, REG.langs[recog].lang, &s3); failed_alloc = k.alloc_failed > f0; k.fail_all = false;
            if (st3 == 0) { polyseed_free(s3); err = "decode_explicit returned OK although every allocation request failed"; }
            else if (failed_alloc ? st3 != model::MEMORY : st3 != r.E[recog]) err = std::string("decode_explicit under allocation failure returned ") + model::status_name(st3);
            else if (failed_alloc && r.E[recog] != model::OK && r.E[recog] != model::UNSUPPORTED) err = "decode_explicit attempted an allocation before its checksum verdict";
            else if (!c14_only && r.R == 1 && st3 != st2) err = std::string("with every allocation failing, decode (auto) returns ") + model::status_name(st2) + " but decode_explicit in the recognised language returns " + model::status_name(st3);
        }
        if (err.empty() && ledger && k.live.size() != live0) err = "a seed block is left allocated after a failed allocation";
    }
    free(buf);
    r.cls = std::string("R=") + (r.R == 0 ? "0" : r.R == 1 ? "1" : ">=2") + "/" + model::status_name(r.st);
    if (res) *res = r;
    return err;
}

} // namespace dor
