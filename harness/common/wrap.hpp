// libc interposition (only in binaries compiled with -DVERIF_WRAP and linked with -Wl,--wrap=malloc,--wrap=free,--wrap=time):
// counts the calls the library makes inside an API window (outside the harness's own stubs) and can answer time() with a
// value chosen by the case, so that the built-in default clock is testable like an injected one.
#pragma once
#include "deps.hpp"
#include <ctime>
#include <cstdio>
#include <cstdlib>
#include <sys/time.h>
#include <sys/random.h>
#include <unistd.h>
#ifdef VERIF_WRAP
extern "C" { void* __real_malloc(size_t); void __real_free(void*); time_t __real_time(time_t*);
void* __wrap_malloc(size_t n) { auto& w = deps::wrap(); if (w.window && !w.in_stub) w.malloc_calls++; return __real_malloc(n); }
void __wrap_free(void* p) { auto& w = deps::wrap(); if (w.window && !w.in_stub) w.free_calls++; __real_free(p); }
char* __real_getenv(const char*); char* __real_secure_getenv(const char*); int __real_rand(void); long __real_random(void); ssize_t __real_getrandom(void*, size_t, unsigned); int __real_getentropy(void*, size_t);
uint32_t __real_arc4random(void); void __real_arc4random_buf(void*, size_t); int __real_clock_gettime(clockid_t, struct timespec*); int __real_gettimeofday(struct timeval*, void*); FILE* __real_fopen(const char*, const char*);
char* __wrap_getenv(const char* n) { auto& w = deps::wrap(); if (w.watching()) { w.note("getenv", n); if (w.env_fake) return (char*)w.env_fake; } return __real_getenv(n); }
char* __wrap_secure_getenv(const char* n) { auto& w = deps::wrap(); if (w.watching()) { w.note("secure_getenv", n); if (w.env_fake) return (char*)w.env_fake; } return __real_secure_getenv(n); }
int __wrap_rand(void) { auto& w = deps::wrap(); if (w.watching()) w.note("rand", nullptr); return __real_rand(); }
long __wrap_random(void) { auto& w = deps::wrap(); if (w.watching()) w.note("random", nullptr); return __real_random(); }
ssize_t __wrap_getrandom(void* b, size_t n, unsigned f) { auto& w = deps::wrap(); if (w.watching()) w.note("getrandom", nullptr); return __real_getrandom(b, n, f); }
int __wrap_getentropy(void* b, size_t n) { auto& w = deps::wrap(); if (w.watching()) w.note("getentropy", nullptr); return __real_getentropy(b, n); }
uint32_t __wrap_arc4random(void) { auto& w = deps::wrap(); if (w.watching()) w.note("arc4random", nullptr); return __real_arc4random(); }
void __wrap_arc4random_buf(void* b, size_t n) { auto& w = deps::wrap(); if (w.watching()) w.note("arc4random_buf", nullptr); __real_arc4random_buf(b, n); }
int __wrap_clock_gettime(clockid_t c, struct timespec* t) { auto& w = deps::wrap(); if (w.watching()) w.note("clock_gettime", nullptr); return __real_clock_gettime(c, t); }
int __wrap_gettimeofday(struct timeval* t, void* z) { auto& w = deps::wrap(); if (w.watching()) w.note("gettimeofday", nullptr); return __real_gettimeofday(t, z); }
FILE* __wrap_fopen(const char* p, const char* m) { auto& w = deps::wrap(); if (w.watching()) w.note("fopen", p); return __real_fopen(p, m); }
time_t __wrap_time(time_t* t) { auto& w = deps::wrap(); if (w.window && !w.in_stub) { w.time_calls++; if (w.fake) { if (t) *t = (time_t)w.fake_time; return (time_t)w.fake_time; } } return __real_time(t); } }
#endif
