// libc interposition (only in binaries compiled with -DVERIF_WRAP and linked with -Wl,--wrap=malloc,--wrap=free,--wrap=time):
// counts the calls the library makes inside an API window (outside the harness's own stubs) and can answer time() with a
// value chosen by the case, so that the built-in default clock is testable like an injected one.
#pragma once
#include "deps.hpp"
#include <ctime>
#ifdef VERIF_WRAP
extern "C" { void* __real_malloc(size_t); void __real_free(void*); time_t __real_time(time_t*);
void* __wrap_malloc(size_t n) { auto& w = deps::wrap(); if (w.window && !w.in_stub) w.malloc_calls++; return __real_malloc(n); }
void __wrap_free(void* p) { auto& w = deps::wrap(); if (w.window && !w.in_stub) w.free_calls++; __real_free(p); }
time_t __wrap_time(time_t* t) { auto& w = deps::wrap(); if (w.window && !w.in_stub) { w.time_calls++; if (w.fake) { if (t) *t = (time_t)w.fake_time; return (time_t)w.fake_time; } } return __real_time(t); } }
#endif
