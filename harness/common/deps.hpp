// Dependency kit: all eight injectable functions, each recording and programmable.
// Two independent sets (A = 0, B = 1) so that a history can re-inject and detect stale
// pointers.  All state is thread_local and lock-free (a mutex in a stub would add
// happens-before edges and could hide a library race from ThreadSanitizer).
#pragma once
#include <sanitizer/asan_interface.h>
#include <polyseed.h>
#include <utf8proc.h>
#include <sched.h>
#include <cstdint>
#include <cstring>
#include <cstdlib>
#include <string>
#include <vector>
#include <map>
#include "util.hpp"

namespace deps {

struct KdfCall {
    std::vector<uint8_t> pw, salt; size_t pwlen = 0, saltlen = 0; uint64_t iterations = 0; uint8_t* key = nullptr; size_t keylen = 0; std::vector<uint8_t> out;   /* first 64 bytes of what was delivered */
    const uint8_t* pw_ptr = nullptr;
};
struct Block { size_t size; uint64_t serial; size_t mz_at_alloc = 0; };   // mz_at_alloc: number of logged wipe calls when the block was handed out
struct Freed { void* ptr; size_t size; std::vector<uint8_t> content; size_t mz_index; size_t mz_at_alloc = 0; };
struct MzCall { void* ptr; size_t len; };

enum KdfMode { KDF_FIXED, KDF_MIX, KDF_NOTOUCH, KDF_ECHO };   // KDF_ECHO: the derived key happens to equal what the output buffer held before the call (recorded in KdfCall::out)

// libc interposition counters (only meaningful in binaries linked with -Wl,--wrap=malloc,--wrap=free,--wrap=time; see props/c18)
struct Wrap { bool enabled = false; bool window = false; int in_stub = 0; uint64_t malloc_calls = 0, free_calls = 0, time_calls = 0; bool fake = false; uint64_t fake_time = 0;
    // the process environment as an input: while `api` is set (an API call is being exercised) getenv/secure_getenv, the libc random generators, the other libc clocks and
    // fopen are counted, and getenv answers env_fake (if set) for every name - a library that consults the environment then behaves differently from the model
    bool api = false; uint64_t foreign_calls = 0; char foreign_what[96] = {0}; const char* env_fake = nullptr;
    void note(const char* fn, const char* arg) { if (!foreign_calls++) snprintf(foreign_what, sizeof foreign_what, "%s(%s%s%s)", fn, arg ? "\"" : "", arg ? arg : "", arg ? "\"" : ""); }
    bool watching() const { return enabled && (window || api) && !in_stub; } };   // fake: the interposed libc time() answers fake_time inside an API window
inline Wrap& wrap() { static Wrap w; return w; }
inline const char* env_value(uint64_t pick) { static const char* ENV[] = {nullptr, "7", "4102444800", "1", "0", "5", "yes", "2"}; return ENV[pick % 8]; }
struct StubScope { bool on; StubScope() : on(wrap().enabled) { if (on) wrap().in_stub++; } ~StubScope() { if (on) wrap().in_stub--; } };   // no shared writes unless interposition is in use (C20 runs many threads)
enum MzMode { MZ_WIPE, MZ_MARK, MZ_NOOP };

struct Kit {
    int id = 0;
    // --- random source
    std::vector<uint8_t> rand_bytes; size_t rand_pos = 0; std::vector<size_t> rand_calls; uint64_t rand_total = 0;
    bool rand_echo = false; std::vector<uint8_t> rand_left;   // rand_echo: the source writes nothing (a broken but possible source); rand_left: the buffer content as the source left it
    // --- clock
    uint64_t clock = 1700000000ull; uint64_t time_calls = 0; std::vector<uint64_t> clock_seq; std::vector<uint64_t> clock_given;   // clock_seq: successive readings (last one repeats); clock_given: what was delivered
    // --- KDF
    std::vector<KdfCall> kdf; KdfMode kdf_mode = KDF_MIX; uint8_t kdf_fixed[32] = {0}; uint64_t kdf_key_salt = 0;
    // --- wipe
    std::vector<MzCall> mz; MzMode mz_mode = MZ_WIPE; uint64_t mz_calls = 0; bool mz_log = true;
    // --- allocator
    std::map<void*, Block> live; uint64_t alloc_calls = 0, alloc_failed = 0, free_calls = 0, serial = 0;
    // Freed blocks are kept (poisoned under ASan, so a use after free is still seen) and the most recently freed one of the right size
    // is handed out again, as glibc's tcache does: "the caller's variable still holds the address the next seed will get" happens
    // in every build, not only without a quarantine.
    bool recycle = true; std::vector<std::pair<void*, size_t>> pool; uint64_t recycled = 0;
    void drop_pool() { for (auto& b : pool) { ASAN_UNPOISON_MEMORY_REGION(b.first, b.second); free(b.first); } pool.clear(); }
    Kit() = default; Kit(const Kit&) = delete; Kit& operator=(const Kit&) = delete; ~Kit() { drop_pool(); }
    uint64_t fail_mask = 0; int fail_pos = 0;       // bit k set -> the k-th request after arming fails (k < 64)
    bool fail_all = false; bool foreign_ok = false; bool track = true;   // track=false: the matching free is libc's, so the ledger cannot follow the blocks   // foreign_ok: no allocator injected, so the injected free legitimately receives libc blocks
    uint8_t garbage = 0xA7;
    std::vector<Freed> freed; std::vector<std::string> ledger_errors;
    // --- normalisers
    bool lenient = false; uint64_t nfc_calls = 0, nfkd_calls = 0; bool truncated = false; bool invalid_seen = false;
    bool norm_passthrough = false;   // behave like the repository's test stub (copy only) — used by a few cross-checks
    // --- concurrency probe (C20)
    int yield_mode = 0;

    void reset_logs() {
        rand_calls.clear(); rand_total = 0; time_calls = 0; clock_given.clear(); kdf.clear(); mz.clear(); mz_calls = 0;
        alloc_calls = alloc_failed = free_calls = 0; freed.clear(); ledger_errors.clear();
        nfc_calls = nfkd_calls = 0; truncated = false; invalid_seen = false;
    }
    void reset_all() {
        reset_logs(); rand_bytes.clear(); rand_pos = 0; rand_echo = false; rand_left.clear(); clock = 1700000000ull; clock_seq.clear(); kdf_mode = KDF_MIX; memset(kdf_fixed, 0, 32); kdf_key_salt = 0;
        drop_pool(); recycle = true;
        mz_mode = MZ_WIPE; mz_log = true; fail_mask = 0; fail_pos = 0; fail_all = false; foreign_ok = false; track = true; garbage = 0xA7; lenient = false; norm_passthrough = false; yield_mode = 0;
        // live blocks are NOT dropped: they belong to seeds still held by the test
    }
    void arm_fail(uint64_t mask) { fail_mask = mask; fail_pos = 0; }
    void disarm() { fail_mask = 0; fail_pos = 0; fail_all = false; }
    uint64_t dep_calls() const { return rand_calls.size() + time_calls + kdf.size() + mz_calls + alloc_calls + free_calls + nfc_calls + nfkd_calls; }
};

inline Kit& kit(int s) { static thread_local Kit k[2]; k[s].id = s; return k[s]; }

inline void maybe_yield(Kit& k);

// ------------------------------------------------------------------ implementations
inline void kdf_fill(const Kit& k, const uint8_t* pw, size_t pwlen, const uint8_t* salt, size_t saltlen, uint8_t* key, size_t keylen) {
    if (k.kdf_mode == KDF_NOTOUCH || k.kdf_mode == KDF_ECHO) return;
    if (k.kdf_mode == KDF_FIXED) { for (size_t i = 0; i < keylen; i++) key[i] = k.kdf_fixed[i % 32]; return; }
    uint64_t h = vf::fnv1a(pw, pwlen, 1469598103934665603ull ^ k.kdf_key_salt); h = vf::fnv1a(salt, saltlen, h ^ 0x5bd1e995u);
    for (size_t i = 0; i < keylen; i++) { if (i % 8 == 0) h = vf::mix64(h + i); key[i] = (uint8_t)(h >> (8 * (i % 8))); }
}

template <int S> void f_randbytes(void* out, size_t n) {
    StubScope sc_; Kit& k = kit(S); maybe_yield(k); k.rand_calls.push_back(n); k.rand_total += n;
    uint8_t* o = (uint8_t*)out;
    if (!k.rand_echo) for (size_t i = 0; i < n; i++) { o[i] = k.rand_pos < k.rand_bytes.size() ? k.rand_bytes[k.rand_pos] : (uint8_t)(0x5C + k.rand_pos); k.rand_pos++; }
    k.rand_left.assign(o, o + (n < 64 ? n : 64));
}
template <int S> uint64_t f_time(void) { StubScope sc_; Kit& k = kit(S); maybe_yield(k); uint64_t v = k.clock_seq.empty() ? k.clock : k.clock_seq[k.time_calls < k.clock_seq.size() ? k.time_calls : k.clock_seq.size() - 1]; k.time_calls++; if (k.clock_given.size() < 16) k.clock_given.push_back(v); return v; }
template <int S> void f_pbkdf2(const uint8_t* pw, size_t pwlen, const uint8_t* salt, size_t saltlen, uint64_t it, uint8_t* key, size_t keylen) {
    StubScope sc_; Kit& k = kit(S); maybe_yield(k);
    /* PBKDF2 XOR-accumulates its blocks: like such implementations the stub clears the output before it reads password and
       salt, so a library that passes overlapping buffers gets what a real KDF would give, not a tolerant copy */
    if (k.kdf_mode != KDF_NOTOUCH && k.kdf_mode != KDF_ECHO && keylen <= 4096) memset(key, 0, keylen);
    KdfCall c; c.pwlen = pwlen; c.saltlen = saltlen; c.iterations = it; c.key = key; c.keylen = keylen; c.pw_ptr = pw;
    c.pw.assign(pw, pw + (pwlen < 4096 ? pwlen : 4096)); c.salt.assign(salt, salt + (saltlen < 4096 ? saltlen : 4096));
    kdf_fill(k, pw, pwlen, salt, saltlen, key, keylen);
    if (k.kdf_mode != KDF_NOTOUCH) c.out.assign(key, key + (keylen < 64 ? keylen : 64));
    k.kdf.push_back(std::move(c));
}
template <int S> void f_memzero(void* const p, const size_t n) {
    StubScope sc_; Kit& k = kit(S); k.mz_calls++;
    if (k.mz_log) k.mz.push_back(MzCall{p, n});
    if (k.mz_mode == MZ_WIPE) memset(p, 0, n); else if (k.mz_mode == MZ_MARK) memset(p, 0xEE, n);
}
template <int S> void* f_alloc(size_t n) {
    StubScope sc_; Kit& k = kit(S); maybe_yield(k); k.alloc_calls++;
    bool fail = k.fail_all || (k.fail_pos < 64 && ((k.fail_mask >> k.fail_pos) & 1)); k.fail_pos++;
    if (fail) { k.alloc_failed++; return nullptr; }
    void* p = nullptr;
    if (k.recycle && k.track && !k.pool.empty() && k.pool.back().second == n) { p = k.pool.back().first; k.pool.pop_back(); ASAN_UNPOISON_MEMORY_REGION(p, n); k.recycled++; }
    else { p = malloc(n); if (!p) abort(); }
    memset(p, k.garbage, n); // fresh memory is never zero
    if (k.track) k.live[p] = Block{n, ++k.serial, k.mz.size()};
    return p;
}
template <int S> void f_free(void* p) {
    StubScope sc_; Kit& k = kit(S); maybe_yield(k); k.free_calls++;
    auto it = k.live.find(p);
    if (it == k.live.end()) {
        if (k.foreign_ok) { free(p); return; }
        char b[96]; snprintf(b, sizeof b, "free(%p) in set %d: pointer is not a live block of this allocator%s", p, S, p ? "" : " (NULL)");
        k.ledger_errors.push_back(b); return; // do not pass unknown pointers on
    }
    Freed f; f.ptr = p; f.size = it->second.size; f.content.assign((uint8_t*)p, (uint8_t*)p + f.size); f.mz_index = k.mz.size(); f.mz_at_alloc = it->second.mz_at_alloc;
    k.freed.push_back(std::move(f));
    memset(p, 0xDD, it->second.size);
    size_t n = it->second.size; k.live.erase(it);
    if (!k.recycle) { free(p); return; }
    k.pool.push_back({p, n}); ASAN_POISON_MEMORY_REGION(p, n);
    if (k.pool.size() > 4) { auto b = k.pool.front(); k.pool.erase(k.pool.begin()); ASAN_UNPOISON_MEMORY_REGION(b.first, b.second); free(b.first); }
}

// Real Unicode normalisation through utf8proc, truncated at a code-point boundary.
// Like the project's own test stubs (strncpy over the whole buffer) it owns all POLYSEED_STR_SIZE bytes of `out`, and like
// many real wrappers it initialises the output BEFORE it reads the input: a library that hands it overlapping input and
// output buffers gets the result such an implementation gives (the input is cut at the overlap), never a tolerant copy.
inline size_t norm_impl(Kit& k, const char* str, polyseed_str out, int opts) {
    const size_t cap = POLYSEED_STR_SIZE - 1;
    memset(out, 0, POLYSEED_STR_SIZE);
    if (k.norm_passthrough) { size_t n = strlen(str); if (n > cap) { n = cap; k.truncated = true; } memcpy(out, str, n); out[n] = 0; return n; }
    utf8proc_uint8_t* o = nullptr;
    utf8proc_ssize_t r = utf8proc_map((const utf8proc_uint8_t*)str, 0, &o, (utf8proc_option_t)(UTF8PROC_NULLTERM | UTF8PROC_STABLE | opts));
    if (r < 0) {
        k.invalid_seen = true;
        if (!k.lenient) { out[0] = 0; return 0; }
        size_t n = strlen(str); if (n > cap) { n = cap; k.truncated = true; }
        memcpy(out, str, n); out[n] = 0; return n;
    }
    size_t n = (size_t)r;
    if (n > cap) { k.truncated = true; n = cap; while (n > 0 && (o[n] & 0xC0) == 0x80) n--; }
    memcpy(out, o, n); out[n] = 0;
    memset(o, 0, (size_t)r); free(o); // keep no copy of phrase / password text
    return n;
}
template <int S> size_t f_nfc(const char* s, polyseed_str out) { StubScope sc_; Kit& k = kit(S); maybe_yield(k); k.nfc_calls++; return norm_impl(k, s, out, UTF8PROC_COMPOSE); }
template <int S> size_t f_nfkd(const char* s, polyseed_str out) { StubScope sc_; Kit& k = kit(S); maybe_yield(k); k.nfkd_calls++; return norm_impl(k, s, out, UTF8PROC_DECOMPOSE | UTF8PROC_COMPAT); }

inline void maybe_yield(Kit& k) {
    if (!k.yield_mode) return;
    if (k.yield_mode == 1) sched_yield(); else { for (volatile int i = 0; i < 200 * k.yield_mode; i++) {} }
}

// ------------------------------------------------------------------ injection
enum : unsigned { OPT_TIME = 1, OPT_ALLOC = 2, OPT_FREE = 4, OPT_ALL = 7 };
template <int S> polyseed_dependency make(unsigned optional_present = OPT_ALL) {
    polyseed_dependency d; memset(&d, 0, sizeof d);
    d.randbytes = &f_randbytes<S>; d.pbkdf2_sha256 = &f_pbkdf2<S>; d.memzero = &f_memzero<S>; d.u8_nfc = &f_nfc<S>; d.u8_nfkd = &f_nfkd<S>;
    d.time = (optional_present & OPT_TIME) ? &f_time<S> : nullptr;
    d.alloc = (optional_present & OPT_ALLOC) ? &f_alloc<S> : nullptr;
    d.free = (optional_present & OPT_FREE) ? &f_free<S> : nullptr;
    return d;
}
inline polyseed_dependency make_set(int s, unsigned optional_present = OPT_ALL) { return s == 0 ? make<0>(optional_present) : make<1>(optional_present); }

// inject and then scribble over the caller's struct (the library must have copied it)
inline void inject(int s = 0, unsigned optional_present = OPT_ALL) {
    polyseed_dependency* d = (polyseed_dependency*)malloc(sizeof(polyseed_dependency));
    *d = make_set(s, optional_present);
    polyseed_inject(d);
    memset(d, 0x41, sizeof *d);
    free(d);
}

} // namespace deps
