// Common plumbing for the polyseed verification harness: case records, evidence
// counters, fingerprints, worker arguments, crash-time dumps.  No rapidcheck here.
#pragma once
#include <cstdint>
#include <cstdio>
#include <cstdlib>
#include <cstring>
#include <csignal>
#include <string>
#include <vector>
#include <map>
#include <unordered_set>
#include <utility>
#include <functional>
#include <unistd.h>
#include <fcntl.h>
#include <sys/wait.h>
#include <sys/time.h>
#include <link.h>
#include <deque>

namespace vf {

// ---------------------------------------------------------------- hex / strings
inline std::string hex(const void* p, size_t n) {
    static const char* d = "0123456789abcdef";
    std::string s; s.reserve(2 * n);
    const uint8_t* b = (const uint8_t*)p;
    for (size_t i = 0; i < n; i++) { s.push_back(d[b[i] >> 4]); s.push_back(d[b[i] & 15]); }
    return s;
}
inline std::string hex(const std::string& s) { return hex(s.data(), s.size()); }
inline std::string hex(const std::vector<uint8_t>& v) { return hex(v.data(), v.size()); }
inline std::string unhex(const std::string& h) {
    std::string o; o.reserve(h.size() / 2);
    auto v = [](char c) -> int { return c >= '0' && c <= '9' ? c - '0' : c >= 'a' && c <= 'f' ? c - 'a' + 10 : c >= 'A' && c <= 'F' ? c - 'A' + 10 : 0; };
    for (size_t i = 0; i + 1 < h.size(); i += 2) o.push_back((char)(v(h[i]) << 4 | v(h[i + 1])));
    return o;
}
inline std::vector<uint8_t> unhexv(const std::string& h) { std::string s = unhex(h); return std::vector<uint8_t>(s.begin(), s.end()); }

inline uint64_t fnv1a(const void* p, size_t n, uint64_t h = 1469598103934665603ull) {
    const uint8_t* b = (const uint8_t*)p;
    for (size_t i = 0; i < n; i++) { h ^= b[i]; h *= 1099511628211ull; }
    return h;
}
inline uint64_t fnv1a(const std::string& s, uint64_t h = 1469598103934665603ull) { return fnv1a(s.data(), s.size(), h); }
inline uint64_t mix64(uint64_t x) { x += 0x9e3779b97f4a7c15ull; x = (x ^ (x >> 30)) * 0xbf58476d1ce4e5b9ull; x = (x ^ (x >> 27)) * 0x94d049bb133111ebull; return x ^ (x >> 31); }

// small deterministic PRNG for *derived* data (expanding a generated 64-bit value into
// a long buffer); every root value still comes from the test library's generator.
struct SplitMix { uint64_t s; explicit SplitMix(uint64_t x) : s(x) {} uint64_t next() { return mix64(s += 0x9e3779b97f4a7c15ull); } uint32_t below(uint32_t n) { return (uint32_t)(next() % n); } };

// ---------------------------------------------------------------- case record
// A case is an ordered list of key=value lines.  Values never contain newlines
// (binary data and text are hex-encoded by the caller).
struct Case {
    std::vector<std::pair<std::string, std::string>> kv;
    Case& set(const std::string& k, const std::string& v) { for (auto& p : kv) if (p.first == k) { p.second = v; return *this; } kv.emplace_back(k, v); return *this; }
    Case& set(const std::string& k, uint64_t v) { return set(k, std::to_string(v)); }
    Case& seti(const std::string& k, int64_t v) { return set(k, std::to_string(v)); }
    bool has(const std::string& k) const { for (auto& p : kv) if (p.first == k) return true; return false; }
    std::string get(const std::string& k, const std::string& d = "") const { for (auto& p : kv) if (p.first == k) return p.second; return d; }
    uint64_t u(const std::string& k, uint64_t d = 0) const { return has(k) ? strtoull(get(k).c_str(), nullptr, 10) : d; }
    int64_t i(const std::string& k, int64_t d = 0) const { return has(k) ? strtoll(get(k).c_str(), nullptr, 10) : d; }
    std::string bytes(const std::string& k) const { return unhex(get(k)); }
    std::string str() const { std::string s; for (auto& p : kv) { s += p.first; s += '='; s += p.second; s += '\n'; } return s; }
    static Case parse(const std::string& text) {
        Case c; size_t pos = 0;
        while (pos < text.size()) {
            size_t e = text.find('\n', pos); if (e == std::string::npos) e = text.size();
            std::string line = text.substr(pos, e - pos); pos = e + 1;
            if (line.empty() || line[0] == '#') continue;
            size_t q = line.find('='); if (q == std::string::npos) continue;
            c.kv.emplace_back(line.substr(0, q), line.substr(q + 1));
        }
        return c;
    }
};

inline std::string read_file(const std::string& path) {
    std::string s; FILE* f = fopen(path.c_str(), "rb"); if (!f) return s;
    char buf[65536]; size_t n; while ((n = fread(buf, 1, sizeof buf, f)) > 0) s.append(buf, n); fclose(f); return s;
}
inline bool write_file(const std::string& path, const std::string& data) {
    FILE* f = fopen(path.c_str(), "wb"); if (!f) return false; fwrite(data.data(), 1, data.size(), f); fclose(f); return true;
}

inline std::string json_escape(const std::string& s) {
    std::string o;
    for (unsigned char c : s) {
        if (c == '"') o += "\\\""; else if (c == '\\') o += "\\\\"; else if (c == '\n') o += "\\n"; else if (c == '\t') o += "\\t";
        else if (c < 0x20) { char b[8]; snprintf(b, sizeof b, "\\u%04x", c); o += b; }
        else o.push_back((char)c);
    }
    return o;
}

// ---------------------------------------------------------------- worker arguments
struct Args {
    std::string id;              // property id
    std::string tier = "quick";
    std::string variant = "asan";
    std::string outdir = ".";
    std::string root = "/verif"; // where golden/ lives
    std::string replay;          // replay file (bypasses the generator)
    std::string part;            // optional: run only this sub-check
    uint64_t seed = 1;
    int worker = 0, nworkers = 1;
    double scale = 1.0;          // case-count multiplier chosen by the driver
    bool thorough() const { return tier == "thorough"; }
    long n(long quick, long thorough_) const { double v = (thorough() ? thorough_ : quick) * scale; return v < 1 ? 1 : (long)v; }
};

inline Args parse_args(int argc, char** argv) {
    Args a;
    if (const char* r = getenv("VERIF_ROOT")) a.root = r;
    for (int i = 1; i < argc; i++) {
        std::string k = argv[i];
        auto val = [&]() -> std::string { if (i + 1 < argc) return argv[++i]; fprintf(stderr, "missing value for %s\n", k.c_str()); exit(2); };
        if (k == "--tier") a.tier = val(); else if (k == "--variant") a.variant = val(); else if (k == "--out") a.outdir = val();
        else if (k == "--root") a.root = val(); else if (k == "--replay") a.replay = val(); else if (k == "--seed") a.seed = strtoull(val().c_str(), 0, 10);
        else if (k == "--worker") a.worker = atoi(val().c_str()); else if (k == "--nworkers") a.nworkers = atoi(val().c_str());
        else if (k == "--scale") a.scale = atof(val().c_str()); else if (k == "--part") a.part = val();
        else { fprintf(stderr, "unknown argument %s\n", k.c_str()); exit(2); }
    }
    return a;
}

// ---------------------------------------------------------------- evidence
struct Evidence {
    uint64_t evaluations = 0;      // cases executed (oracle applied)
    uint64_t nontrivial = 0;       // of which non-trivial by the property's rule (with repeats)
    std::map<std::string, uint64_t> classes;          // histogram
    std::map<std::string, std::vector<std::string>> samples; // up to kSamples per class
    std::unordered_set<uint64_t> fps;                 // fingerprints of non-trivial cases
    std::vector<std::string> notes;
    std::map<std::string, uint64_t> enumerated;       // name -> size of a sub-domain enumerated completely
    static constexpr size_t kSamples = 2;
    void count(const std::string& cls, uint64_t k = 1) { classes[cls] += k; }
    void eval(uint64_t k = 1) { evaluations += k; }
    void nt(uint64_t fp) { nontrivial++; fps.insert(fp); }
    void nt(const Case& c) { nt(fnv1a(c.str())); }
    void sample(const std::string& cls, const Case& c) { auto& v = samples[cls]; if (v.size() < kSamples) v.push_back(c.str()); }
    void sample(const std::string& cls, const std::string& s) { auto& v = samples[cls]; if (v.size() < kSamples) v.push_back(s); }
    void note(const std::string& s) { notes.push_back(s); }

    std::string json() const {
        std::string o = "{\n";
        o += "\"evaluations\": " + std::to_string(evaluations) + ",\n\"nontrivial_with_repeats\": " + std::to_string(nontrivial) + ",\n";
        o += "\"classes\": {"; bool first = true;
        for (auto& p : classes) { o += first ? "" : ","; first = false; o += "\"" + json_escape(p.first) + "\": " + std::to_string(p.second); }
        o += "},\n\"enumerated\": {"; first = true;
        for (auto& p : enumerated) { o += first ? "" : ","; first = false; o += "\"" + json_escape(p.first) + "\": " + std::to_string(p.second); }
        o += "},\n\"samples\": {"; first = true;
        for (auto& p : samples) { o += first ? "" : ","; first = false; o += "\"" + json_escape(p.first) + "\": ["; bool f2 = true; for (auto& s : p.second) { o += f2 ? "" : ","; f2 = false; o += "\"" + json_escape(s) + "\""; } o += "]"; }
        o += "},\n\"notes\": ["; first = true;
        for (auto& s : notes) { o += first ? "" : ","; first = false; o += "\"" + json_escape(s) + "\""; }
        o += "]\n}\n";
        return o;
    }
    void write(const std::string& base) const {
        write_file(base + ".json", json());
        std::string fp; fp.resize(fps.size() * 8); size_t i = 0;
        for (uint64_t v : fps) { memcpy(&fp[i], &v, 8); i += 8; }
        write_file(base + ".fp", fp);
    }
};

// ---------------------------------------------------------------- global worker context
struct Worker {
    Args args;
    Evidence ev;
    int failures = 0;
    // current case, kept in a static buffer so a crash handler can dump it without allocating
    char cur[1 << 16]; size_t cur_len = 0;
    bool in_child = false;                 // confirmation child: never writes files
    std::deque<std::string> history;       // serialised cases executed so far in this process (most recent last, bounded)
    bool stop_after_history_failure = false;
    int zy_to = -1, zy_from = -1;          // pipes to the pristine confirmation process
    char crash_path[512] = {0}; char crash_tail[256] = {0}; char timeout_tail[256] = {0};
    unsigned case_timeout_s = 0;           // per-case watchdog (C14: "each API call terminates"); 0 = off
    std::string base() const { return args.outdir + "/" + args.id + "-" + args.variant + "-w" + std::to_string(args.worker); }
};
inline Worker& W() { static Worker w; return w; }

inline void set_current(const Case& c) {
    std::string s = c.str(); Worker& w = W();
    if (w.case_timeout_s) { struct itimerval it; memset(&it, 0, sizeof it); it.it_value.tv_sec = w.case_timeout_s; setitimer(ITIMER_PROF, &it, nullptr); }   // CPU-time watchdog (not wall clock: a starved process on a loaded machine must not trip it), re-armed for every case; a case that burns this much CPU is dumped by on_alarm
    if (!w.in_child) { w.history.push_back(s); if (w.history.size() > 65) w.history.pop_front(); }
    w.cur_len = s.size() < sizeof(w.cur) ? s.size() : sizeof(w.cur);
    memcpy(w.cur, s.data(), w.cur_len);
}

// Record an oracle failure: the case + message become a replay file.  With rapidcheck the
// same file is overwritten by every failing execution while shrinking, so what remains is
// the minimal counterexample.
inline void record_failure(const Case& c, const std::string& msg, const std::string& kind = "fail") {
    Worker& w = W(); if (w.in_child) return; w.failures++;
    Case out = c; out.set("property", w.args.id); out.set("variant", w.args.variant); out.set("message", msg);
    write_file(w.base() + "." + kind + ".case", out.str());
}

extern "C" void __sanitizer_set_death_callback(void (*)(void)) __attribute__((weak));
inline void crash_dump() {
    // runs inside a sanitizer's death callback or a signal handler: no allocation, no stdio (ThreadSanitizer holds its
    // report lock here and intercepted malloc/fopen can deadlock) — only open/write on paths prepared in advance
    static volatile int once = 0; if (once) return; once = 1;
    Worker& w = W(); if (w.in_child) return;
    int fd = open(w.crash_path, O_WRONLY | O_CREAT | O_TRUNC, 0644);
    if (fd >= 0) { ssize_t r = write(fd, w.cur, w.cur_len); (void)r; r = write(fd, w.crash_tail, strlen(w.crash_tail)); (void)r; close(fd); }
#if defined(__has_feature)
#if __has_feature(thread_sanitizer)
    return;
#endif
#endif
    w.ev.write(w.base());
}
inline void on_signal(int sig) { crash_dump(); signal(sig, SIG_DFL); raise(sig); }
inline void on_alarm(int) { // the current case did not return in time: dump it like a crash (no allocation) and leave
    Worker& w = W(); if (w.in_child) _exit(79);
    int fd = open(w.crash_path, O_WRONLY | O_CREAT | O_TRUNC, 0644);
    if (fd >= 0) { ssize_t r = write(fd, w.cur, w.cur_len); (void)r; r = write(fd, w.timeout_tail, strlen(w.timeout_tail)); (void)r; close(fd); }
    _exit(79);
}
inline void install_crash_handlers() {
    if (__sanitizer_set_death_callback) __sanitizer_set_death_callback(crash_dump);
    signal(SIGABRT, on_signal); signal(SIGSEGV, on_signal); signal(SIGBUS, on_signal); signal(SIGFPE, on_signal); signal(SIGILL, on_signal);
}

// ---------------------------------------------------------------- pristine confirmation process
// A failure observed in a long-lived worker may depend on what earlier cases left behind in the library (a static
// cache, a mask that was not reset).  Before a failure is accepted it is re-executed in a child forked from a process
// that has run no case at all: (1) the case alone; (2) if that passes, the case preceded by the last 1, 2, 4 ... 64
// cases of this worker, then minimised.  What is reported is therefore always a self-contained, reproducible replay
// file: one case, or a short history of cases separated by "---" lines.
inline bool write_all(int fd, const void* p, size_t n) { const char* b = (const char*)p; while (n) { ssize_t r = write(fd, b, n); if (r <= 0) return false; b += r; n -= (size_t)r; } return true; }
inline bool read_all(int fd, void* p, size_t n) { char* b = (char*)p; while (n) { ssize_t r = read(fd, b, n); if (r <= 0) return false; b += r; n -= (size_t)r; } return true; }
inline bool send_blob(int fd, const std::string& s) { uint64_t n = s.size(); return write_all(fd, &n, 8) && write_all(fd, s.data(), s.size()); }
inline bool recv_blob(int fd, std::string& s) { uint64_t n; if (!read_all(fd, &n, 8) || n > (1u << 28)) return false; s.resize(n); return read_all(fd, &s[0], n); }

inline std::vector<std::string> split_cases(const std::string& text) {
    std::vector<std::string> v; std::string cur; size_t pos = 0;
    while (pos <= text.size()) { size_t e = text.find('\n', pos); if (e == std::string::npos) e = text.size(); std::string line = text.substr(pos, e - pos); pos = e + 1;
        if (line == "---") { v.push_back(cur); cur.clear(); } else if (!line.empty()) { cur += line; cur += '\n'; } if (e == text.size()) break; }
    if (!cur.empty()) v.push_back(cur); return v;
}
// run a history (one or more serialised cases) through the oracle; the verdict is that of the LAST case, earlier ones only set the scene
inline std::string run_history(const std::function<std::string(const Case&)>& oracle, const std::string& text) {
    std::vector<std::string> cs = split_cases(text); std::string m;
    for (size_t i = 0; i < cs.size(); i++) { Case c = Case::parse(cs[i]); set_current(c); m = oracle(c); if (!m.empty() && i + 1 < cs.size()) return "(case " + std::to_string(i + 1) + " of " + std::to_string(cs.size()) + ") " + m; }
    return m;
}
inline void zygote_start(const std::function<std::string(const Case&)>& oracle) {
    Worker& w = W(); int a[2], b[2]; if (pipe(a) || pipe(b)) return;
    fflush(stdout); fflush(stderr);
    pid_t z = fork(); if (z < 0) return;
    if (z == 0) { // the pristine process: has run nothing; forks one grandchild per request
        close(a[1]); close(b[0]); w.in_child = true; signal(SIGPIPE, SIG_IGN);
        for (;;) {
            std::string req; if (!recv_blob(a[0], req)) _exit(0);
            int c[2]; if (pipe(c)) _exit(0);
            pid_t g = fork();
            if (g == 0) { close(c[0]); int dn = open("/dev/null", O_WRONLY); if (dn >= 0) { dup2(dn, 1); dup2(dn, 2); } std::string m = run_history(oracle, req); send_blob(c[1], m); _exit(0); }
            close(c[1]); std::string res; bool ok = recv_blob(c[0], res); close(c[0]); int st = 0; waitpid(g, &st, 0);
            if (!ok) res = "crash (sanitizer report, abort or signal) while executing this case";
            if (!send_blob(b[1], res)) _exit(0);
        }
    }
    close(a[0]); close(b[1]); w.zy_to = a[1]; w.zy_from = b[0];
}
inline bool zygote_run(const std::string& history, std::string* msg) { // true if the (last case of the) history fails in a pristine process
    Worker& w = W(); if (w.zy_to < 0) { *msg = "?"; return true; }
    std::string res; if (!send_blob(w.zy_to, history) || !recv_blob(w.zy_from, res)) { w.zy_to = -1; *msg = "?"; return true; }
    *msg = res; return !res.empty();
}
// Decide what an in-process failure of case c is.  Returns 1 = standalone failure (proceed as usual), 2 = fails only after a
// history (a multi-case replay file was written; stop), 0 = not reproducible in a pristine process (counted, treated as a pass).
inline int classify_failure(const Case& c, const std::string& msg) {
    Worker& w = W(); if (w.in_child || w.zy_to < 0) return 1;
    std::string m; if (zygote_run(c.str(), &m)) return 1;
    std::vector<std::string> hist(w.history.begin(), w.history.end()); if (!hist.empty() && hist.back() == c.str()) hist.pop_back();
    for (size_t k = 1; k <= hist.size() * 2 && k <= 64; k *= 2) {
        size_t kk = k < hist.size() ? k : hist.size(); std::vector<std::string> pre(hist.end() - (long)kk, hist.end());
        auto join = [&](const std::vector<std::string>& p) { std::string t; for (auto& x : p) { t += x; t += "---\n"; } t += c.str(); return t; };
        if (zygote_run(join(pre), &m)) {
            for (size_t i = 0; i < pre.size();) { std::vector<std::string> q = pre; q.erase(q.begin() + (long)i); std::string m2; if (zygote_run(join(q), &m2)) { pre = q; m = m2; } else i++; }   // greedy minimisation
            std::string text = join(pre) + "property=" + w.args.id + "\nvariant=" + w.args.variant + "\nmessage=" + m + " [only after the " + std::to_string(pre.size()) + " preceding case(s) of this file: the library keeps state between calls]\n";
            write_file(w.base() + ".fail.case", text); w.failures++; w.stop_after_history_failure = true; return 2;
        }
        if (kk == hist.size()) break;
    }
    w.ev.count("failed-only-in-the-long-lived-worker(not reproducible from a pristine process; not reported)"); w.ev.note("not reproducible from a pristine process: " + msg.substr(0, 200));
    return 0;
}

// for enumeration loops: returns true if the run should stop (a failure was recorded)
inline bool enum_fail(const Case& c, const std::string& msg) { int k = classify_failure(c, msg); if (k == 0) return false; if (k == 1) record_failure(c, msg); return true; }

// ---------------------------------------------------------------- static storage of the library under test
// The driver extracts from the linker map which parts of the executable's writable static storage (.data/.bss/COMMON)
// come from the objects of libpolyseed.a (file <exe>.libstatics).  StaticGuard snapshots those bytes and reports which
// of them an API call changed.  A byte may change once from zero (lazy one-time initialisation is tolerated); anything
// that keeps changing is state the library carries from call to call.
struct StaticGuard {
    struct Region { uint8_t* p; size_t n; std::string name; std::vector<uint8_t> snap; std::vector<uint8_t> written; };
    std::vector<Region> regions; bool loaded = false;
    struct ExeInfo { uintptr_t base = 0, tls_vaddr = 0, tls_memsz = 0, tls_align = 1; bool has_tls = false; };
    static int phdr_cb(struct dl_phdr_info* info, size_t, void* data) { // first entry = the executable
        ExeInfo* e = (ExeInfo*)data; e->base = (uintptr_t)info->dlpi_addr;
        for (int i = 0; i < info->dlpi_phnum; i++) if (info->dlpi_phdr[i].p_type == PT_TLS) { e->has_tls = true; e->tls_vaddr = info->dlpi_phdr[i].p_vaddr; e->tls_memsz = info->dlpi_phdr[i].p_memsz; e->tls_align = info->dlpi_phdr[i].p_align ? info->dlpi_phdr[i].p_align : 1; }
        return 1; }
    void load() {
        if (loaded) return; loaded = true; char exe[600]; ssize_t n = readlink("/proc/self/exe", exe, sizeof exe - 20); if (n <= 0) return; exe[n] = 0;
        std::string text = read_file(std::string(exe) + ".libstatics"); ExeInfo ei; dl_iterate_phdr(phdr_cb, &ei); uintptr_t base = ei.base; size_t pos = 0;
        // thread-local statics of the library (main thread's copy; x86-64 TLS variant II: the executable's block ends at the thread pointer)
        uintptr_t tp = (uintptr_t)__builtin_thread_pointer(); uintptr_t tls_start = ei.has_tls ? tp - ((ei.tls_memsz + ei.tls_align - 1) / ei.tls_align) * ei.tls_align : 0;
        while (pos < text.size()) { size_t e = text.find('\n', pos); if (e == std::string::npos) e = text.size(); std::string line = text.substr(pos, e - pos); pos = e + 1;
            unsigned long a = 0, sz = 0; char obj[200] = {0}, sec[100] = {0}; if (sscanf(line.c_str(), "%lx %lu %199s %99s", &a, &sz, obj, sec) < 4 || sz == 0 || strncmp(obj, "lang_", 5) == 0) continue;   // the ten word-table objects (1.3 MB of constant data) are left out
            bool tls = sec[1] == 't'; if (tls && !ei.has_tls) continue;
            Region r; r.p = tls ? (uint8_t*)(tls_start + (a - ei.tls_vaddr)) : (uint8_t*)(base + a); r.n = sz; r.name = std::string(obj) + " " + sec; r.snap.resize(sz); r.written.assign(sz, 0); regions.push_back(std::move(r)); }
    }
    size_t bytes() { load(); size_t t = 0; for (auto& r : regions) t += r.n; return t; }
    // the regions contain the sanitizer's red zones between globals: they are read with plain loops in uninstrumented functions
#if defined(__clang__)
#define VF_NOASAN __attribute__((no_sanitize("address", "undefined")))
#else
#define VF_NOASAN __attribute__((no_sanitize_address))
#endif
    VF_NOASAN static void raw_copy(uint8_t* d, const volatile uint8_t* s, size_t n) { for (size_t i = 0; i < n; i++) d[i] = s[i]; }
    VF_NOASAN static bool raw_equal(const uint8_t* a, const volatile uint8_t* b, size_t n) { for (size_t i = 0; i < n; i++) if (a[i] != b[i]) return false; return true; }
    VF_NOASAN static uint8_t raw_get(const volatile uint8_t* p) { return *p; }
    void snapshot() { load(); for (auto& r : regions) raw_copy(r.snap.data(), r.p, r.n); }
    // returns "" or a description of the first byte that changed although it had been written before (or was non-zero)
    std::string changed() {
        for (auto& r : regions) { if (raw_equal(r.snap.data(), r.p, r.n)) continue;
            for (size_t i = 0; i < r.n; i++) { uint8_t now = raw_get(r.p + i); if (r.snap[i] != now) { bool first_write_from_zero = r.snap[i] == 0 && !r.written[i]; r.written[i] = 1; r.snap[i] = now;
                if (!first_write_from_zero) return r.name + " offset " + std::to_string(i); } } }
        return "";
    }
    void accept() { for (auto& r : regions) raw_copy(r.snap.data(), r.p, r.n); }   // after inject / enable_features: whatever they wrote is the new baseline
};
inline StaticGuard& static_guard() { static StaticGuard g; return g; }

// Each property binary defines these two.
//   run():    generate cases, apply oracle, fill W().ev, call record_failure on violations
//   replay(): apply the same oracle to one saved case; return "" if it holds, else a message
struct Hooks { std::function<void()> run; std::function<std::string(const Case&)> replay; };

inline int worker_main(int argc, char** argv, const char* id, const Hooks& h) {
    Worker& w = W(); w.args = parse_args(argc, argv); w.args.id = id;
    setvbuf(stdout, nullptr, _IOLBF, 0);
    snprintf(w.crash_path, sizeof w.crash_path, "%s.crash.case", w.base().c_str());
    snprintf(w.crash_tail, sizeof w.crash_tail, "property=%s\nvariant=%s\nmessage=crash (sanitizer report, abort or signal) while executing this case\n", w.args.id.c_str(), w.args.variant.c_str());
    snprintf(w.timeout_tail, sizeof w.timeout_tail, "property=%s\nvariant=%s\nmessage=the call under test did not return within the per-case time limit (normal duration: microseconds)\n", w.args.id.c_str(), w.args.variant.c_str());
    install_crash_handlers(); signal(SIGPROF, on_alarm);
    if (!w.args.replay.empty()) {
        std::string text = read_file(w.args.replay);
        if (Case::parse(text).kv.empty()) { fprintf(stderr, "cannot read replay file %s\n", w.args.replay.c_str()); return 2; }
        std::string m = run_history(h.replay, text);
        if (m.empty()) { printf("REPLAY-OK %s\n", w.args.replay.c_str()); return 0; }
        printf("REPLAY-FAIL %s: %s\n", w.args.replay.c_str(), m.c_str()); return 3;
    }
    if (!getenv("VERIF_NO_ZYGOTE")) zygote_start(h.replay);
    h.run();
    w.ev.write(w.base());
    return w.failures ? 3 : 0;
}

} // namespace vf
