// Common plumbing for the polyseed verification harness: case records, evidence
// counters, fingerprints, worker arguments, crash-time dumps.  No rapidcheck here.
#pragma once
#include <cstdint>
#include <cstdio>
#include <cstdlib>
#include <cstring>
#include <csignal>
#include <string>
#include <vector>
#include <map>
#include <unordered_set>
#include <utility>
#include <functional>
#include <unistd.h>
#include <fcntl.h>

namespace vf {

// ---------------------------------------------------------------- hex / strings
inline std::string hex(const void* p, size_t n) {
    static const char* d = "0123456789abcdef";
    std::string s; s.reserve(2 * n);
    const uint8_t* b = (const uint8_t*)p;
    for (size_t i = 0; i < n; i++) { s.push_back(d[b[i] >> 4]); s.push_back(d[b[i] & 15]); }
    return s;
}
inline std::string hex(const std::string& s) { return hex(s.data(), s.size()); }
inline std::string hex(const std::vector<uint8_t>& v) { return hex(v.data(), v.size()); }
inline std::string unhex(const std::string& h) {
    std::string o; o.reserve(h.size() / 2);
    auto v = [](char c) -> int { return c >= '0' && c <= '9' ? c - '0' : c >= 'a' && c <= 'f' ? c - 'a' + 10 : c >= 'A' && c <= 'F' ? c - 'A' + 10 : 0; };
    for (size_t i = 0; i + 1 < h.size(); i += 2) o.push_back((char)(v(h[i]) << 4 | v(h[i + 1])));
    return o;
}
inline std::vector<uint8_t> unhexv(const std::string& h) { std::string s = unhex(h); return std::vector<uint8_t>(s.begin(), s.end()); }

inline uint64_t fnv1a(const void* p, size_t n, uint64_t h = 1469598103934665603ull) {
    const uint8_t* b = (const uint8_t*)p;
    for (size_t i = 0; i < n; i++) { h ^= b[i]; h *= 1099511628211ull; }
    return h;
}
inline uint64_t fnv1a(const std::string& s, uint64_t h = 1469598103934665603ull) { return fnv1a(s.data(), s.size(), h); }
inline uint64_t mix64(uint64_t x) { x += 0x9e3779b97f4a7c15ull; x = (x ^ (x >> 30)) * 0xbf58476d1ce4e5b9ull; x = (x ^ (x >> 27)) * 0x94d049bb133111ebull; return x ^ (x >> 31); }

// small deterministic PRNG for *derived* data (expanding a generated 64-bit value into
// a long buffer); every root value still comes from the test library's generator.
struct SplitMix { uint64_t s; explicit SplitMix(uint64_t x) : s(x) {} uint64_t next() { return mix64(s += 0x9e3779b97f4a7c15ull); } uint32_t below(uint32_t n) { return (uint32_t)(next() % n); } };

// ---------------------------------------------------------------- case record
// A case is an ordered list of key=value lines.  Values never contain newlines
// (binary data and text are hex-encoded by the caller).
struct Case {
    std::vector<std::pair<std::string, std::string>> kv;
    Case& set(const std::string& k, const std::string& v) { for (auto& p : kv) if (p.first == k) { p.second = v; return *this; } kv.emplace_back(k, v); return *this; }
    Case& set(const std::string& k, uint64_t v) { return set(k, std::to_string(v)); }
    Case& seti(const std::string& k, int64_t v) { return set(k, std::to_string(v)); }
    bool has(const std::string& k) const { for (auto& p : kv) if (p.first == k) return true; return false; }
    std::string get(const std::string& k, const std::string& d = "") const { for (auto& p : kv) if (p.first == k) return p.second; return d; }
    uint64_t u(const std::string& k, uint64_t d = 0) const { return has(k) ? strtoull(get(k).c_str(), nullptr, 10) : d; }
    int64_t i(const std::string& k, int64_t d = 0) const { return has(k) ? strtoll(get(k).c_str(), nullptr, 10) : d; }
    std::string bytes(const std::string& k) const { return unhex(get(k)); }
    std::string str() const { std::string s; for (auto& p : kv) { s += p.first; s += '='; s += p.second; s += '\n'; } return s; }
    static Case parse(const std::string& text) {
        Case c; size_t pos = 0;
        while (pos < text.size()) {
            size_t e = text.find('\n', pos); if (e == std::string::npos) e = text.size();
            std::string line = text.substr(pos, e - pos); pos = e + 1;
            if (line.empty() || line[0] == '#') continue;
            size_t q = line.find('='); if (q == std::string::npos) continue;
            c.kv.emplace_back(line.substr(0, q), line.substr(q + 1));
        }
        return c;
    }
};

inline std::string read_file(const std::string& path) {
    std::string s; FILE* f = fopen(path.c_str(), "rb"); if (!f) return s;
    char buf[65536]; size_t n; while ((n = fread(buf, 1, sizeof buf, f)) > 0) s.append(buf, n); fclose(f); return s;
}
inline bool write_file(const std::string& path, const std::string& data) {
    FILE* f = fopen(path.c_str(), "wb"); if (!f) return false; fwrite(data.data(), 1, data.size(), f); fclose(f); return true;
}

inline std::string json_escape(const std::string& s) {
    std::string o;
    for (unsigned char c : s) {
        if (c == '"') o += "\\\""; else if (c == '\\') o += "\\\\"; else if (c == '\n') o += "\\n"; else if (c == '\t') o += "\\t";
        else if (c < 0x20) { char b[8]; snprintf(b, sizeof b, "\\u%04x", c); o += b; }
        else o.push_back((char)c);
    }
    return o;
}

// ---------------------------------------------------------------- worker arguments
struct Args {
    std::string id;              // property id
    std::string tier = "quick";
    std::string variant = "asan";
    std::string outdir = ".";
    std::string root = "/verif"; // where golden/ lives
    std::string replay;          // replay file (bypasses the generator)
    std::string part;            // optional: run only this sub-check
    uint64_t seed = 1;
    int worker = 0, nworkers = 1;
    double scale = 1.0;          // case-count multiplier chosen by the driver
    bool thorough() const { return tier == "thorough"; }
    long n(long quick, long thorough_) const { double v = (thorough() ? thorough_ : quick) * scale; return v < 1 ? 1 : (long)v; }
};

inline Args parse_args(int argc, char** argv) {
    Args a;
    if (const char* r = getenv("VERIF_ROOT")) a.root = r;
    for (int i = 1; i < argc; i++) {
        std::string k = argv[i];
        auto val = [&]() -> std::string { if (i + 1 < argc) return argv[++i]; fprintf(stderr, "missing value for %s\n", k.c_str()); exit(2); };
        if (k == "--tier") a.tier = val(); else if (k == "--variant") a.variant = val(); else if (k == "--out") a.outdir = val();
        else if (k == "--root") a.root = val(); else if (k == "--replay") a.replay = val(); else if (k == "--seed") a.seed = strtoull(val().c_str(), 0, 10);
        else if (k == "--worker") a.worker = atoi(val().c_str()); else if (k == "--nworkers") a.nworkers = atoi(val().c_str());
        else if (k == "--scale") a.scale = atof(val().c_str()); else if (k == "--part") a.part = val();
        else { fprintf(stderr, "unknown argument %s\n", k.c_str()); exit(2); }
    }
    return a;
}

// ---------------------------------------------------------------- evidence
struct Evidence {
    uint64_t evaluations = 0;      // cases executed (oracle applied)
    uint64_t nontrivial = 0;       // of which non-trivial by the property's rule (with repeats)
    std::map<std::string, uint64_t> classes;          // histogram
    std::map<std::string, std::vector<std::string>> samples; // up to kSamples per class
    std::unordered_set<uint64_t> fps;                 // fingerprints of non-trivial cases
    std::vector<std::string> notes;
    std::map<std::string, uint64_t> enumerated;       // name -> size of a sub-domain enumerated completely
    static constexpr size_t kSamples = 2;
    void count(const std::string& cls, uint64_t k = 1) { classes[cls] += k; }
    void eval(uint64_t k = 1) { evaluations += k; }
    void nt(uint64_t fp) { nontrivial++; fps.insert(fp); }
    void nt(const Case& c) { nt(fnv1a(c.str())); }
    void sample(const std::string& cls, const Case& c) { auto& v = samples[cls]; if (v.size() < kSamples) v.push_back(c.str()); }
    void sample(const std::string& cls, const std::string& s) { auto& v = samples[cls]; if (v.size() < kSamples) v.push_back(s); }
    void note(const std::string& s) { notes.push_back(s); }

    std::string json() const {
        std::string o = "{\n";
        o += "\"evaluations\": " + std::to_string(evaluations) + ",\n\"nontrivial_with_repeats\": " + std::to_string(nontrivial) + ",\n";
        o += "\"classes\": {"; bool first = true;
        for (auto& p : classes) { o += first ? "" : ","; first = false; o += "\"" + json_escape(p.first) + "\": " + std::to_string(p.second); }
        o += "},\n\"enumerated\": {"; first = true;
        for (auto& p : enumerated) { o += first ? "" : ","; first = false; o += "\"" + json_escape(p.first) + "\": " + std::to_string(p.second); }
        o += "},\n\"samples\": {"; first = true;
        for (auto& p : samples) { o += first ? "" : ","; first = false; o += "\"" + json_escape(p.first) + "\": ["; bool f2 = true; for (auto& s : p.second) { o += f2 ? "" : ","; f2 = false; o += "\"" + json_escape(s) + "\""; } o += "]"; }
        o += "},\n\"notes\": ["; first = true;
        for (auto& s : notes) { o += first ? "" : ","; first = false; o += "\"" + json_escape(s) + "\""; }
        o += "]\n}\n";
        return o;
    }
    void write(const std::string& base) const {
        write_file(base + ".json", json());
        std::string fp; fp.resize(fps.size() * 8); size_t i = 0;
        for (uint64_t v : fps) { memcpy(&fp[i], &v, 8); i += 8; }
        write_file(base + ".fp", fp);
    }
};

// ---------------------------------------------------------------- global worker context
struct Worker {
    Args args;
    Evidence ev;
    int failures = 0;
    // current case, kept in a static buffer so a crash handler can dump it without allocating
    char cur[1 << 16]; size_t cur_len = 0;
    std::string base() const { return args.outdir + "/" + args.id + "-" + args.variant + "-w" + std::to_string(args.worker); }
};
inline Worker& W() { static Worker w; return w; }

inline void set_current(const Case& c) {
    std::string s = c.str(); Worker& w = W();
    w.cur_len = s.size() < sizeof(w.cur) ? s.size() : sizeof(w.cur);
    memcpy(w.cur, s.data(), w.cur_len);
}

// Record an oracle failure: the case + message become a replay file.  With rapidcheck the
// same file is overwritten by every failing execution while shrinking, so what remains is
// the minimal counterexample.
inline void record_failure(const Case& c, const std::string& msg, const std::string& kind = "fail") {
    Worker& w = W(); w.failures++;
    Case out = c; out.set("property", w.args.id); out.set("variant", w.args.variant); out.set("message", msg);
    write_file(w.base() + "." + kind + ".case", out.str());
}

extern "C" void __sanitizer_set_death_callback(void (*)(void)) __attribute__((weak));
inline void crash_dump() {
    static volatile int once = 0; if (once) return; once = 1;
    Worker& w = W();
    std::string p = w.base() + ".crash.case";
    int fd = open(p.c_str(), O_WRONLY | O_CREAT | O_TRUNC, 0644);
    if (fd >= 0) {
        ssize_t r = write(fd, w.cur, w.cur_len); (void)r;
        std::string tail = "property=" + w.args.id + "\nvariant=" + w.args.variant + "\nmessage=crash (sanitizer report, abort or signal) while executing this case\n";
        r = write(fd, tail.data(), tail.size()); (void)r; close(fd);
    }
    w.ev.write(w.base());
}
inline void on_signal(int sig) { crash_dump(); signal(sig, SIG_DFL); raise(sig); }
inline void install_crash_handlers() {
    if (__sanitizer_set_death_callback) __sanitizer_set_death_callback(crash_dump);
    signal(SIGABRT, on_signal); signal(SIGSEGV, on_signal); signal(SIGBUS, on_signal); signal(SIGFPE, on_signal); signal(SIGILL, on_signal);
}

// Each property binary defines these two.
//   run():    generate cases, apply oracle, fill W().ev, call record_failure on violations
//   replay(): apply the same oracle to one saved case; return "" if it holds, else a message
struct Hooks { std::function<void()> run; std::function<std::string(const Case&)> replay; };

inline int worker_main(int argc, char** argv, const char* id, const Hooks& h) {
    Worker& w = W(); w.args = parse_args(argc, argv); w.args.id = id;
    setvbuf(stdout, nullptr, _IOLBF, 0);
    install_crash_handlers();
    if (!w.args.replay.empty()) {
        Case c = Case::parse(read_file(w.args.replay));
        if (c.kv.empty()) { fprintf(stderr, "cannot read replay file %s\n", w.args.replay.c_str()); return 2; }
        set_current(c);
        std::string m = h.replay(c);
        if (m.empty()) { printf("REPLAY-OK %s\n", w.args.replay.c_str()); return 0; }
        printf("REPLAY-FAIL %s: %s\n", w.args.replay.c_str(), m.c_str()); return 3;
    }
    h.run();
    w.ev.write(w.base());
    return w.failures ? 3 : 0;
}

} // namespace vf
