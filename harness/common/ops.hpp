// Operation-sequence executor shared by C13 (abstract model equivalence), C15 (allocator discipline
// under injected failures) and C18 (injected dependencies honoured).  A sequence is a vector of small
// integer tuples, so every shrink of a sequence is still a valid sequence.  The model state is:
// enabled mask, current dependency set (+ which optional entries are present), slot -> abstract seed.
#pragma once
#include "lib.hpp"
#include <ctime>
#include <optional>

namespace ops {

enum Code : uint8_t { INJECT, ENABLE, CREATE, LOAD, DECODE, DECODE_X, CRYPT, ENCODE, STORE, KEYGEN, QUERY, FREE, FREE_NULL, ARM_FAIL, NCODES };
struct Op { uint8_t code, a, b, c; };
inline const char* code_name(int c) { static const char* n[] = {"inject", "enable_features", "create", "load", "decode", "decode_explicit", "crypt", "encode", "store", "keygen", "query", "free", "free(NULL)", "arm-alloc-failure"}; return c < NCODES ? n[c] : "?"; }
inline std::string to_hex(const std::vector<Op>& v) { std::string s; for (auto& o : v) { uint8_t b[4] = {o.code, o.a, o.b, o.c}; s += vf::hex(b, 4); } return s; }
inline std::vector<Op> from_hex(const std::string& h) { std::string b = vf::unhex(h); std::vector<Op> v; for (size_t i = 0; i + 4 <= b.size(); i += 4) v.push_back(Op{(uint8_t)((uint8_t)b[i] % NCODES), (uint8_t)b[i + 1], (uint8_t)b[i + 2], (uint8_t)b[i + 3]}); return v; }
inline std::string describe(const std::vector<Op>& v) { std::string s; for (auto& o : v) { s += code_name(o.code); s += "(" + std::to_string(o.a) + "," + std::to_string(o.b) + "," + std::to_string(o.c) + ") "; } return s; }

constexpr int NSLOTS = 4;
static const char* PASSWORDS[] = {"", "pw", "contrase\xc3\xb1""a", "contrasen\xcc\x83""a", "\xef\xbd\x90\xef\xbd\x97", "correct horse battery staple"};

struct Flags {
    bool check_model = true;      // C13: statuses / outputs equal the abstract model
    bool check_ledger = true;     // C15: allocator ledger invariant after every call
    bool check_routing = true;    // C18: every dependency call lands in the current set; create consumes 19 random bytes etc.
    bool allow_inject = true;
    bool strict_rand19 = false;   // C18: create takes exactly 19 bytes in total from the current random source
    bool check_statics = false;   // C13: no API call other than inject / enable_features writes to the library's static storage
};

using deps::Wrap; using deps::wrap;

// Seeds whose phrase is as long as a phrase of that language can be (all 16 words, the check word included, of maximal NFKD
// length, e.g. the 543-byte Korean phrases): from the golden lists and the reference arithmetic, two per language, built once.
struct Extremal { model::Seed seed; unsigned coin; size_t lang; };
inline std::vector<Extremal> build_extremal_table() {
    std::vector<Extremal> T;
    const lib::Registry& REG = lib::Registry::get();
    for (size_t li = 0; li < REG.size(); li++) { const model::Lang* gl = REG.at(li).golden; if (!gl) continue;
        size_t maxw = 0; for (auto& w : gl->words) maxw = std::max(maxw, w.size()); std::vector<unsigned> top, even; for (unsigned i = 0; i < 2048; i++) if (gl->words[i].size() == maxw) { top.push_back(i); if (!(i & 1)) even.push_back(i); }
        if (top.size() < 2 || even.empty()) continue; vf::SplitMix sm(vf::mix64(0xE17 + li)); int found = 0;
        for (int tries = 0; tries < 400000 && found < 2; tries++) { std::array<unsigned, 16> sh{}; for (int i = 1; i < 16; i++) sh[i] = top[sm.below((uint32_t)top.size())]; sh[2] = even[sm.below((uint32_t)even.size())];
            unsigned coin = sm.below(2048); std::array<unsigned, 16> co = sh; co[1] ^= coin; if (gl->words[model::check_value(co)].size() != maxw) continue;
            T.push_back(Extremal{model::unpack(co), coin, li}); found++; } }
    return T;
}
inline const std::vector<Extremal>& extremal_table() { static const std::vector<Extremal> T = build_extremal_table(); return T; }   /* initialised once, thread-safely (C20 runs many Machines) */

struct Machine {
    Flags fl; const lib::Registry& REG = lib::Registry::get();
    // model state
    unsigned mask = 0; int cur = 0; unsigned opt = deps::OPT_ALL;
    std::optional<model::Seed> slot[NSLOTS]; polyseed_data* ptr[NSLOTS] = {nullptr, nullptr, nullptr, nullptr};
    bool owned[NSLOTS] = {false, false, false, false};   /* the block of this slot was handed out by the current injected allocator (false: libc block that survived a re-injection) */
    uint64_t armed = 0; uint64_t step_no = 0; uint64_t rand_ctr = 1;
    // evidence
    std::map<std::string, uint64_t> cls; bool saw_crypt_then_use = false, saw_reinject = false, saw_failed_ctor = false, saw_alloc_fail = false; int max_live = 0; bool crypted[NSLOTS] = {false, false, false, false};

    deps::Kit& K() { return deps::kit(cur); }
    deps::Kit& Other() { return deps::kit(1 - cur); }
    bool alloc_injected() const { return opt & deps::OPT_ALLOC; }
    bool ledger_active() const { return (opt & deps::OPT_ALLOC) && (opt & deps::OPT_FREE); }
    bool free_injected() const { return opt & deps::OPT_FREE; }
    int live_count() const { int n = 0; for (int i = 0; i < NSLOTS; i++) if (ptr[i]) n++; return n; }
    int owned_count() const { int n = 0; for (int i = 0; i < NSLOTS; i++) if (ptr[i] && owned[i]) n++; return n; }
    int pick_live(int j) const { for (int d = 0; d < NSLOTS; d++) if (ptr[(j + d) % NSLOTS]) return (j + d) % NSLOTS; return j % NSLOTS; } // arguments refer to live slots whenever one exists

    std::vector<std::string>* log = nullptr;   // optional transcript (C20, C15)
    int garbage_override = -1;                 // fill byte of fresh blocks (C15 compares two fills)
    void start(bool first_inject = true, bool set_features = true) {
        for (int s = 0; s < 2; s++) { for (auto& b : deps::kit(s).live) free(b.first); deps::kit(s).live.clear(); /* nothing of an earlier (failed) case may leak into this one */
            deps::kit(s).reset_all(); deps::kit(s).kdf_key_salt = 0x1111u * (unsigned)(s + 1); deps::kit(s).garbage = garbage_override >= 0 ? (uint8_t)garbage_override : (uint8_t)(0xA7 + 0x31 * s); }
        cur = 0; opt = deps::OPT_ALL; if (first_inject) deps::inject(0, deps::OPT_ALL);
        if (set_features) { mask = 0; polyseed_enable_features(7); polyseed_enable_features(0); }
        if (fl.check_statics) { vf::static_guard().snapshot(); }   // through a known non-default state, so a case never depends on its predecessor
    }
    void release(int i) { // free through the library
        if (!ptr[i]) return; polyseed_data* p = ptr[i]; last_freed = (uintptr_t)p;
        polyseed_free(p);
        ptr[i] = nullptr; slot[i].reset(); crypted[i] = false; ext_of[i] = -1;
    }
    void finish() { if (wrap().enabled) { wrap().api = false; wrap().env_fake = nullptr; } /* no shared writes unless interposition is in use: C20 runs many Machines at once */ for (int i = 0; i < NSLOTS; i++) release(i); }
    // What the caller's output variables hold BEFORE a constructor / decoder call is none of the library's business: they are pre-set to NULL,
    // to the (dangling) address of the seed freed last — which the recycling allocator is about to hand out again —, to another live seed,
    // to a non-pointer; lang_out to NULL, to each registered language, to a non-pointer.  Results must be the same.
    uintptr_t last_freed = 0;
    int ext_of[NSLOTS] = {-1, -1, -1, -1};   /* index into extremal_table() if the slot holds such a seed */
    polyseed_data* prior_seed(const Op& o) { switch ((o.a ^ (o.b >> 1) ^ (o.c >> 2)) & 3) { case 1: cls["out-var:dangling-address-of-last-freed-seed"]++; return (polyseed_data*)last_freed; case 2: cls["out-var:another-live-seed"]++; return ptr[pick_live(o.c)]; case 3: return (polyseed_data*)(uintptr_t)0x10; default: return nullptr; } }
    const polyseed_lang* prior_lang(const Op& o) { size_t v = (size_t)(o.a + o.c) % (REG.size() + 2); if (v < REG.size()) { cls["out-var:lang_out-holds-a-language"]++; return REG.at(v).lang; } return v == REG.size() ? nullptr : (const polyseed_lang*)(uintptr_t)0x10; }

    std::string fresh_random(std::vector<uint8_t>& out) { out.resize(19); vf::SplitMix sm(vf::mix64(rand_ctr++ * 0x9E37u + step_no)); for (auto& b : out) b = (uint8_t)sm.next(); return ""; }

    // invariants after every step
    std::string invariants(const char* what, uint64_t other_before) {
        for (int i = 0; i < NSLOTS; i++) if (ptr[i] && fl.check_model) {
            lib::Image img = lib::store(ptr[i]); auto mi = model::image(*slot[i]);
            if (img != mi) return std::string("after ") + what + ": seed in slot " + std::to_string(i) + " is " + vf::hex(img.data(), 32) + " but the model says " + vf::hex(mi.data(), 32) + " (non-canonical seed, or an operation on another seed changed it)";
        }
        if (fl.check_ledger && ledger_active()) {
            if (!K().ledger_errors.empty()) return std::string("after ") + what + ": " + K().ledger_errors[0];
            if ((int)K().live.size() != owned_count()) return std::string("after ") + what + ": " + std::to_string(K().live.size()) + " blocks are allocated but " + std::to_string(owned_count()) + " seeds are live";
            for (int i = 0; i < NSLOTS; i++) if (ptr[i] && owned[i] && !K().live.count(ptr[i])) return std::string("after ") + what + ": a live seed is not a block of the injected allocator";
        }
        if (fl.check_ledger && !Other().ledger_errors.empty()) return std::string("after ") + what + ": (other set) " + Other().ledger_errors[0];
        if (fl.check_routing && Other().dep_calls() != other_before) return std::string("after ") + what + ": a dependency of the set that is no longer injected was called";
        return "";
    }

    // expected outcome of decoding `phrase` (library-produced for seed m, language le, coin A) with coin B
    // returns status; MULT_LANG handling needs the other languages
    bool recognised_elsewhere(const std::string& phrase, const lib::LangEntry& le) {
        for (auto& o : REG.langs) { if (o.lang == le.lang) continue; polyseed_data* t = nullptr; int st = polyseed_decode_explicit(phrase.c_str(), (polyseed_coin)0, o.lang, &t); if (st == 0) polyseed_free(t); if (st != model::LANG && st != model::NUM_WORDS) return true; }
        return false;
    }

    std::string step(const Op& o) {
        step_no++; deps::Kit& k = K(); uint64_t other_before = Other().dep_calls();
        uint64_t fail_mask = armed; armed = 0; k.disarm();
        uint64_t failed0 = k.alloc_failed, req0 = k.alloc_calls;
        // the failure schedule is armed immediately before the call under test (the harness's own probing calls must not consume it)
        auto arm_now = [&]() { if (fail_mask && alloc_injected()) k.arm_fail(fail_mask); failed0 = k.alloc_failed; };
        auto observed_fail = [&]() { return k.alloc_failed > failed0; };
        std::string what = code_name(o.code); cls[std::string("op:") + what]++;
        if (fl.check_statics) vf::static_guard().snapshot();
        std::string err;
        if (wrap().enabled) { Wrap& w0 = wrap(); w0.api = true; w0.foreign_calls = 0; w0.env_fake = deps::env_value((uint64_t)o.a + 3 * o.b + o.c); }   /* the environment is an input too: every variable the library asks for has this value */
        Wrap& wr = wrap();
        switch (o.code) {
        case INJECT: {
            if (!fl.allow_inject) break;
            bool keep = !alloc_injected() && !(o.c & 1);      // blocks from libc malloc may legitimately outlive a re-injection: they are released by whatever free is current then
            if (!keep) for (int i = 0; i < NSLOTS; i++) release(i);   // otherwise seeds belong to the allocator they came from
            else if (live_count()) { cls["inject:seeds-kept-across-re-injection"]++; for (int i = 0; i < NSLOTS; i++) owned[i] = false; }
            int set = o.a & 1; unsigned op = (o.b & 7u);
            if (!wr.enabled && !(op & deps::OPT_TIME)) op |= deps::OPT_TIME; // without interposition the libc clock cannot be predicted
            deps::inject(set, op); if (set != cur) saw_reinject = true; cur = set; opt = op;
            K().foreign_ok = !(op & deps::OPT_ALLOC) || (keep && live_count() > 0); K().track = (op & deps::OPT_ALLOC) && (op & deps::OPT_FREE);
            other_before = Other().dep_calls();
            cls[std::string("inject:opt=") + std::to_string(op)]++;
        } break;
        case ENABLE: {
            unsigned arg = o.a < 8 ? o.a : o.a < 16 ? (0xFFFFFFF8u | (o.a & 7u)) : (unsigned)o.a; int r = polyseed_enable_features(arg);
            int pc = (arg & 1) + ((arg >> 1) & 1) + ((arg >> 2) & 1); mask = arg & 7u;
            if (fl.check_model && r != pc) err = "enable_features(" + std::to_string(arg) + ") returned " + std::to_string(r);
        } break;
        case CREATE: {
            int i = o.b % NSLOTS; release(i); std::vector<uint8_t> rnd; fresh_random(rnd); if (o.c & 1) rnd[18] |= 0xC0;
            if ((o.b & 0xF0) == 0xA0) rnd.assign(19, (o.b & 4) ? 0xFF : 0x00);   // degenerate but legal random-source outputs
            k.rand_bytes = rnd; k.rand_pos = 0; k.rand_calls.clear(); k.rand_total = 0; k.time_calls = 0;
            uint64_t t = model::EPOCH + (uint64_t)(o.c) * 7 * model::STEP / 2 + o.a * 1000; if ((o.c & 7) == 7) t = (o.c & 8) ? UINT64_MAX : 12345; else if ((o.c & 15) == 11) t = model::EPOCH + (1024 + (uint64_t)o.a * 5) * model::STEP + o.b; /* beyond the 1024-month range */ k.clock = t;
            unsigned f = (o.a & 7u); if (o.a & 0x30) f &= mask;            // model-guided: three times out of four ask only for enabled features
            f |= ((o.a & 8u) ? 0xFFFFFFE0u : 0u);
            if (wr.enabled) { wr.malloc_calls = wr.time_calls = wr.free_calls = 0; wr.window = true; wr.fake = !(opt & deps::OPT_TIME); wr.fake_time = t; }   // no clock injected: the interposed libc time() delivers t
            polyseed_data* s = prior_seed(o); arm_now(); int st = (int)polyseed_create(f, &s); k.disarm(); if (wr.enabled) { wr.window = false; wr.fake = false; }
            bool supported = ((f & 7u) & ~mask) == 0;
            if (st == 0) { ptr[i] = s; owned[i] = true; model::Seed m; memcpy(m.secret.data(), rnd.data(), 19); m.secret[18] &= 0x3F; m.features = f & 7u;
                bool beyond = t != UINT64_MAX && t >= model::EPOCH + 1024 * model::STEP;
                if ((opt & deps::OPT_TIME) && beyond) { lib::Image img = lib::store(s); m.birthday = (img[8] | (img[9] << 8)) & 1023u; /* no property fixes the month beyond the range: adopt it, everything else is still compared */ }
                else if ((opt & deps::OPT_TIME) || wr.enabled) m.birthday = (t != UINT64_MAX && t >= model::EPOCH + 1024 * model::STEP) ? ((lib::store(s)[8] | (lib::store(s)[9] << 8)) & 1023u) : model::birthday_index(t); else { unsigned b = model::birthday_index((uint64_t)time(nullptr)); m.birthday = b; lib::Image img = lib::store(s); unsigned v = img[8] | (img[9] << 8); if ((v & 1023u) + 1 == b || (v & 1023u) == b + 1) m.birthday = v & 1023u; }
                slot[i] = m; }
            if (fl.check_model) {
                int expect = !supported ? model::UNSUPPORTED : observed_fail() ? model::MEMORY : model::OK;
                if (st != expect && !(st == model::MEMORY && observed_fail())) err = "create(" + std::to_string(f) + ") under mask " + std::to_string(mask) + " returned " + model::status_name(st) + ", model says " + model::status_name(expect);
            }
            if (err.empty() && observed_fail() && st != model::MEMORY) err = std::string("the allocator failed during create but the status is ") + model::status_name(st);
            if (err.empty() && st == 0 && fl.check_routing) {
                if (k.rand_total != 19) err = "create took " + std::to_string(k.rand_total) + " bytes from the random source, must be 19";
                else if ((opt & deps::OPT_TIME) && k.time_calls < 1) err = "create did not ask the injected clock";
                else if (wr.enabled && (opt & deps::OPT_TIME) && wr.time_calls) err = "create called libc time() although a clock is injected";
                else if (wr.enabled && !(opt & deps::OPT_TIME) && !wr.time_calls) err = "no clock injected but create did not call libc time()";
                else if (wr.enabled && (opt & deps::OPT_ALLOC) && wr.malloc_calls) err = "create called libc malloc although an allocator is injected";
                else if (wr.enabled && !(opt & deps::OPT_ALLOC) && !wr.malloc_calls) err = "no allocator injected but create did not call libc malloc";
            }
            if (st != 0) saw_failed_ctor = true; if (observed_fail()) saw_alloc_fail = true;
            cls[std::string("create:") + model::status_name(st)]++; cls[std::string("cell:create/") + model::status_name(st) + (fail_mask ? "/armed" : "/unarmed")]++;
        } break;
        case LOAD: {
            int j = pick_live(o.a), i = o.b % NSLOTS; lib::Image img; int kind = o.c % 6; int ext = -1;
            model::Seed src = slot[j] ? *slot[j] : model::Seed(); img = model::image(src);
            if ((o.c & 0xC0) == 0xC0 && !extremal_table().empty()) { ext = (int)((o.a + o.b) % extremal_table().size()); src = extremal_table()[(size_t)ext].seed; img = model::image(src); kind = 0; cls["load:seed-with-the-longest-possible-phrase"]++; }
            if (kind == 1) img[30] ^= 1; else if (kind == 2) img[0] ^= 0x20; else if (kind == 3) { src.features |= 8; img = model::image(src); } else if (kind == 4) img[28] |= 0x80; else if (kind == 5) { model::Seed z; z.features = (o.c >> 3) & 7u; z.birthday = (o.c == 5) ? 0 : o.c; img = model::image(z); src = z; }   // o.c == 5: the all-zero seed (valid: zero secret, month 0, no features, check value 0)
            release(i);
            polyseed_data* s = prior_seed(o); if (wr.enabled) { wr.malloc_calls = wr.free_calls = 0; wr.window = true; } arm_now(); int st = (int)polyseed_load(img.data(), &s); k.disarm(); if (wr.enabled) wr.window = false;
            model::Seed ms; int expect = model::load_verdict(img.data(), mask, &ms);
            if (st == 0) { ptr[i] = s; owned[i] = true; slot[i] = (expect == 0) ? ms : model::Seed(); ext_of[i] = ext; }
            if (observed_fail()) { saw_alloc_fail = true; if (st != model::MEMORY) err = std::string("the allocator failed during load but the status is ") + model::status_name(st); }
            else if (fl.check_model && st != expect) err = std::string("load returned ") + model::status_name(st) + ", model says " + model::status_name(expect) + " for " + vf::hex(img.data(), 32) + " under mask " + std::to_string(mask);
            else if (!fl.check_model && st == 0 && expect != 0) slot[i] = lib::abstract(s);
            if (st != 0) saw_failed_ctor = true; cls[std::string("load:") + model::status_name(st)]++; cls[std::string("cell:load/") + model::status_name(observed_fail() ? expect : st) + (fail_mask ? "/armed" : "/unarmed")]++;
        } break;
        case DECODE: case DECODE_X: {
            int j = pick_live(o.a), i = (o.a >> 2) % NSLOTS; size_t dli = o.b % REG.size(); int kind = o.c % 8; unsigned A = (unsigned)(o.c * 37 + o.b) & 2047u;
            if (ptr[j] && ext_of[j] >= 0 && (o.a & 3)) { dli = extremal_table()[(size_t)ext_of[j]].lang; A = extremal_table()[(size_t)ext_of[j]].coin; cls["decode:longest-possible-phrase"]++; }
            const lib::LangEntry& le = REG.at(dli);
            bool expl = o.code == DECODE_X; std::string phrase; int expect = -1; model::Seed src;
            if (!slot[j]) { // no source seed: fixed malformed strings
                static const char* bad[] = {"one two three four five six seven eight nine ten eleven twelve thirteen fourteen fifteen", "a b c d e f g h i j k l m n o p q", "xxxx xxxx xxxx xxxx xxxx xxxx xxxx xxxx xxxx xxxx xxxx xxxx xxxx xxxx xxxx xxxx", ""};
                phrase = bad[kind % 4]; expect = (kind % 4 == 2) ? model::LANG : model::NUM_WORDS; kind = 100;
            } else {
                src = *slot[j]; phrase = lib::encode(ptr[j], le.lang, A);
                if (fl.check_model && le.golden) { std::string mp = model::phrase(*le.golden, src, A); if (mp != phrase) { err = "encode output differs from the model phrase: [" + phrase + "] vs [" + mp + "]"; break; } }
            }
            unsigned B = A; const polyseed_lang* use = le.lang; bool ambiguous = false;
            if (kind < 100) {
                if (kind == 1) B = (A ^ (1u << (o.b % 11))) & 2047u;                                     // another coin
                else if (kind == 2 && expl) { const lib::LangEntry& ol = REG.at((o.b + 1 + o.c % (REG.size() - 1)) % REG.size()); if (ol.lang != le.lang) use = ol.lang; }   // another language
                else if (kind == 3) { auto t = lib::tokens(phrase); bool pre = le.golden && le.golden->prefix; if (pre) for (auto& x : t) { auto cps = model::codepoints(le.golden->noaccent ? model::strip_marks(x) : x); if (cps.size() > 4) { cps.resize(4); x = model::utf8(cps); } } phrase = lib::join(t); } // abbreviated (C08-permitted)
                else if (kind == 4) phrase += " ";                                                          // one trailing space is allowed
                else if (kind == 5) phrase += " extra";                                                     // 17 tokens
                else if (kind == 6) { auto t = lib::tokens(phrase); t.pop_back(); phrase = lib::join(t); } // 15 tokens
                else if (kind == 7) { auto t = lib::tokens(phrase); t[(o.b >> 2) % 16] = "xxxxq"; phrase = lib::join(t); }           // one unknown word
                bool supported = model::features_supported(src.features, mask);
                if (kind != 5 && kind != 6 && kind != 7) ambiguous = recognised_elsewhere(phrase, le);
                if (kind == 5 || kind == 6) expect = model::NUM_WORDS;
                else if (kind == 7) expect = model::LANG;
                else if (kind == 2 && expl && use != le.lang) expect = ambiguous ? -1 : model::LANG;
                else if (!expl && ambiguous) expect = model::MULT_LANG;
                else if (kind == 1) expect = model::CHECKSUM;
                else expect = supported ? model::OK : model::UNSUPPORTED;
            }
            if (kind < 100 && model::nfkd(phrase).size() > POLYSEED_STR_SIZE - 1) expect = -1;   /* longer than the phrase buffer: the normaliser interface truncates, no property fixes the outcome (DESIGN section 5) */
            release(i);
            polyseed_data* s = prior_seed(o); const polyseed_lang* lo = prior_lang(o); const polyseed_lang* lo_before = lo; (void)lo_before; if (wr.enabled) { wr.malloc_calls = wr.free_calls = 0; wr.window = true; }
            arm_now(); int st = expl ? (int)polyseed_decode_explicit(phrase.c_str(), (polyseed_coin)B, use, &s) : (int)polyseed_decode(phrase.c_str(), (polyseed_coin)B, (o.b & 0x40) ? nullptr : &lo, &s); k.disarm();   /* lang_out is optional */ if (wr.enabled) wr.window = false;
            if (st == 0) { ptr[i] = s; owned[i] = true; slot[i] = (expect == model::OK) ? src : lib::abstract(s); }
            if (observed_fail()) { saw_alloc_fail = true; if (st != model::MEMORY) err = std::string("the allocator failed during ") + what + " but the status is " + model::status_name(st); else if (fl.check_model && expect != model::OK && expect != model::UNSUPPORTED && expect != -1) err = std::string(what) + ": allocation attempted although the outcome must be " + model::status_name(expect); }
            else if (fl.check_model && expect >= 0 && st != expect) err = std::string(what) + " returned " + model::status_name(st) + ", model says " + model::status_name(expect) + " (phrase kind " + std::to_string(kind) + ", language " + le.name_en + ", coins " + std::to_string(A) + "/" + std::to_string(B) + ", mask " + std::to_string(mask) + ")";
            else if (fl.check_model && st == 0 && !expl && !(o.b & 0x40) && lo != le.lang) err = "decode reported another language than the phrase was encoded in";
            if (st != 0) saw_failed_ctor = true; cls[std::string(expl ? "decode_explicit:" : "decode:") + model::status_name(st)]++; cls[std::string(expl ? "cell:decode_explicit/" : "cell:decode/") + model::status_name(observed_fail() && expect >= 0 ? expect : st) + (fail_mask ? "/armed" : "/unarmed")]++; if (ambiguous) cls["decode:ambiguous-phrase"]++;
        } break;
        case CRYPT: {
            int i = pick_live(o.a); if (!ptr[i]) break; const char* pw = PASSWORDS[o.b % 6]; size_t n0 = k.kdf.size();
            arm_now(); polyseed_crypt(ptr[i], pw); k.disarm();
            if (k.kdf.size() != n0 + 1) { err = "crypt did not call the current KDF exactly once"; break; }
            const deps::KdfCall& kc = k.kdf.back(); std::string pwn = model::nfkd(pw); auto salt = model::crypt_salt();
            if (fl.check_model && (kc.pwlen != pwn.size() || std::string(kc.pw.begin(), kc.pw.end()) != pwn || kc.saltlen != 16 || memcmp(kc.salt.data(), salt.data(), 16) != 0 || kc.iterations != 10000 || kc.keylen != 32)) { err = "crypt passed wrong arguments to the KDF: " + lib::kdf_str(kc); break; }
            uint8_t m[32]; deps::kdf_fill(k, kc.pw.data(), kc.pwlen, kc.salt.data(), kc.saltlen, m, 32); slot[i] = model::crypt(*slot[i], m); crypted[i] = true;
        } break;
        case ENCODE: {
            int i = pick_live(o.a); if (!ptr[i]) break; size_t eli = o.b % REG.size(); unsigned coin = (unsigned)(o.c * 8 + (o.b & 7)) & 2047u;
            if (ext_of[i] >= 0 && (o.c & 3)) { eli = extremal_table()[(size_t)ext_of[i]].lang; coin = extremal_table()[(size_t)ext_of[i]].coin; cls["encode:longest-possible-phrase"]++; }
            const lib::LangEntry& le = REG.at(eli);
            arm_now(); size_t ret = 0; std::string ph = lib::encode(ptr[i], le.lang, coin, &ret); k.disarm(); if (crypted[i]) saw_crypt_then_use = true;
            if (ret != ph.size()) { err = "encode returned a length different from strlen"; break; }
            if (fl.check_model && le.golden) { std::string mp = model::phrase(*le.golden, *slot[i], coin); if (mp != ph) err = "encode output [" + ph + "] differs from the model phrase [" + mp + "] for " + slot[i]->describe(); }
        } break;
        case STORE: { int i = pick_live(o.a); if (!ptr[i]) break; if (crypted[i]) saw_crypt_then_use = true; /* compared in invariants() */ } break;
        case KEYGEN: {
            int i = pick_live(o.a); if (!ptr[i]) break; unsigned coin = (unsigned)(o.b * 8 + 3) & 2047u; static const size_t KS[8] = {32, 16, 64, 1, 0, 33, ((size_t)1 << 32) + 32, (size_t)-1 / 2}; size_t ks = KS[o.c % 8]; bool huge = ks > 4096; std::vector<uint8_t> key((huge ? 0 : ks) + 1, 0x4B); auto save_mode = k.kdf_mode; if (huge) k.kdf_mode = deps::KDF_NOTOUCH;   /* sizes beyond 32 bits: the stub records and does not write */
            size_t n0 = k.kdf.size(); arm_now(); polyseed_keygen(ptr[i], (polyseed_coin)coin, ks, key.data()); k.disarm();
            if (k.kdf.size() != n0 + 1) { err = "keygen did not call the current KDF exactly once"; break; }
            const deps::KdfCall& kc = k.kdf.back(); auto pw = model::keygen_password(*slot[i]); auto salt = model::keygen_salt(*slot[i], coin);
            if (fl.check_model && (kc.pwlen != 32 || memcmp(kc.pw.data(), pw.data(), 32) != 0 || kc.saltlen != 32 || memcmp(kc.salt.data(), salt.data(), 32) != 0 || kc.iterations != 10000 || kc.key != key.data() || kc.keylen != ks)) err = "keygen passed wrong arguments to the KDF: " + lib::kdf_str(kc) + " for " + slot[i]->describe() + " coin " + std::to_string(coin);
            else if (!huge && key[ks] != 0x4B) err = "keygen wrote past the key buffer";
            k.kdf_mode = save_mode;
        } break;
        case QUERY: {
            int i = pick_live(o.a); if (!ptr[i] || !fl.check_model) break; const model::Seed& m = *slot[i];
            if (polyseed_get_birthday(ptr[i]) != model::birthday_time(m.birthday)) err = "get_birthday differs from the model";
            else if (polyseed_get_feature(ptr[i], o.b) != (m.features & o.b & 7u)) err = "get_feature(" + std::to_string(o.b) + ") differs from the model";
            else if (polyseed_is_encrypted(ptr[i]) != (int)((m.features >> 4) & 1)) err = "is_encrypted differs from the model";
        } break;
        case FREE: {
            int i = o.a % NSLOTS; if (!ptr[i]) break; size_t f0 = k.freed.size(); uint64_t fc0 = k.free_calls; polyseed_data* p = ptr[i]; bool mine = owned[i];
            if (wr.enabled) { wr.free_calls = wr.malloc_calls = 0; wr.window = true; } polyseed_free(p); if (wr.enabled) wr.window = false;
            ptr[i] = nullptr; slot[i].reset(); crypted[i] = false;
            if (free_injected() && fl.check_ledger) {
                if (k.free_calls != fc0 + 1) err = "free(seed) called the injected free " + std::to_string(k.free_calls - fc0) + " times";
                else if (ledger_active() && mine && (k.freed.size() != f0 + 1 || k.freed.back().ptr != p)) err = "free(seed) did not return the seed's block to the injected free";
                else if (ledger_active() && mine && fl.check_routing) { bool zero = true; for (uint8_t b : k.freed.back().content) if (b) zero = false; if (!zero) err = "the seed block was not wiped before it was released"; }
            }
            if (err.empty() && wr.enabled && fl.check_routing) { if (free_injected() && wr.free_calls) err = "free(seed) called libc free although a free function is injected"; else if (!free_injected() && !wr.free_calls) err = "no free function injected but free(seed) did not call libc free"; }
        } break;
        case FREE_NULL: {
            uint64_t d0 = k.dep_calls(); polyseed_free(nullptr);
            if (fl.check_ledger && k.dep_calls() != d0) err = "free(NULL) called a dependency";
        } break;
        case ARM_FAIL: { armed = (uint64_t)(o.a ? o.a : 1) | ((uint64_t)o.b << 8); cls["armed"]++; } break;
        }
        k.disarm(); (void)req0;
        if (wrap().enabled) { Wrap& w0 = wrap(); w0.api = false; w0.env_fake = nullptr; if (w0.foreign_calls) { cls["foreign-source-consulted"]++; if (err.empty() && (fl.check_routing || fl.check_model)) err = std::string("the library called ") + w0.foreign_what + " during the call: the environment, libc random generators and other clocks are not among the injected functions, the enabled-feature mask and the libc defaults (time, malloc, free) the library may depend on"; } }
        if (log) { std::string l = what + " ->"; for (auto& p : cls) if (p.first.find(':') != std::string::npos && p.first.rfind("op:", 0) != 0 && p.first.rfind("cell:", 0) != 0) l += " " + p.first + "=" + std::to_string(p.second); for (int i = 0; i < NSLOTS; i++) if (ptr[i]) { lib::Image im = lib::store(ptr[i]); l += " slot" + std::to_string(i) + "=" + vf::hex(im.data(), 32); } if (!K().kdf.empty()) l += " kdf=" + lib::kdf_str(K().kdf.back()); log->push_back(l); }
        if (!err.empty()) return "step " + std::to_string(step_no) + " " + what + ": " + err;
        if (fl.check_statics) {
            if (o.code == INJECT || o.code == ENABLE) vf::static_guard().accept();
            else { std::string ch = vf::static_guard().changed(); if (!ch.empty()) return "step " + std::to_string(step_no) + " " + what + ": the call changed static storage of the library again (" + ch + "): the library carries state from call to call besides the enabled features and the injected functions"; }
        }
        if (live_count() > max_live) max_live = live_count();
        return invariants(what.c_str(), other_before);
    }

    std::string run(const std::vector<Op>& seq) {
        for (auto& o : seq) { std::string m = step(o); if (!m.empty()) { finish(); return m; } }
        finish();
        for (int s = 0; s < 2; s++) { if (!deps::kit(s).live.empty() && (s != cur || ledger_active())) return "blocks of set " + std::to_string(s) + " are still allocated after every seed was freed"; if (!deps::kit(s).ledger_errors.empty()) return deps::kit(s).ledger_errors[0]; }
        return "";
    }
};

} // namespace ops
