// Reference model of the polyseed format, transcribed from the README "Encoding" section,
// the comments of include/polyseed.h and the statements of properties C03/C04/C06/C11/C12.
// Shares no code with the library.  Used only by conformance checks (see DESIGN 2.4).
#pragma once
#include <cstdint>
#include <cstring>
#include <string>
#include <vector>
#include <array>
#include <map>
#include <utf8proc.h>
#include "util.hpp"

namespace model {

// ---------------------------------------------------------------- Unicode (untruncated, std::string)
inline bool u8map(const std::string& s, int opts, std::string& out) {
    utf8proc_uint8_t* o = nullptr;
    utf8proc_ssize_t n = utf8proc_map((const utf8proc_uint8_t*)s.data(), (utf8proc_ssize_t)s.size(), &o, (utf8proc_option_t)(UTF8PROC_STABLE | opts));
    if (n < 0) { out.clear(); return false; }
    out.assign((const char*)o, (size_t)n); free(o); return true;
}
inline std::string nfc(const std::string& s) { std::string o; return u8map(s, UTF8PROC_COMPOSE, o) ? o : s; }
inline std::string nfd(const std::string& s) { std::string o; return u8map(s, UTF8PROC_DECOMPOSE, o) ? o : s; }
inline std::string nfkd(const std::string& s) { std::string o; return u8map(s, UTF8PROC_DECOMPOSE | UTF8PROC_COMPAT, o) ? o : s; }
inline bool valid_utf8(const std::string& s) { std::string o; return u8map(s, UTF8PROC_DECOMPOSE, o); }

// decode UTF-8 into code points (assumes valid input)
inline std::vector<uint32_t> codepoints(const std::string& s) {
    std::vector<uint32_t> v; size_t i = 0;
    while (i < s.size()) {
        utf8proc_int32_t cp; utf8proc_ssize_t n = utf8proc_iterate((const utf8proc_uint8_t*)s.data() + i, (utf8proc_ssize_t)(s.size() - i), &cp);
        if (n <= 0) { v.push_back(0xFFFD); i++; continue; }
        v.push_back((uint32_t)cp); i += (size_t)n;
    }
    return v;
}
inline std::string utf8(uint32_t cp) { utf8proc_uint8_t b[4]; utf8proc_ssize_t n = utf8proc_encode_char((utf8proc_int32_t)cp, b); return std::string((char*)b, (size_t)n); }
inline std::string utf8(const std::vector<uint32_t>& v) { std::string s; for (uint32_t c : v) s += utf8(c); return s; }
inline bool is_mark(uint32_t cp) { auto c = utf8proc_category((utf8proc_int32_t)cp); return c == UTF8PROC_CATEGORY_MN || c == UTF8PROC_CATEGORY_MC || c == UTF8PROC_CATEGORY_ME; }

// ---------------------------------------------------------------- GF(2^11), x^11 + x^2 + 1
inline unsigned gf_mul2(unsigned x) { x <<= 1; if (x & 0x800) x ^= 0x805; return x; }
inline unsigned gf_mulx(unsigned v, int times) { for (int k = 0; k < times; k++) v = gf_mul2(v); return v; }
// check value: c0 = sum_{i=1..15} c_i * 2^i   (so that sum_{i=0..15} c_i 2^i = 0)
inline unsigned check_value(const std::array<unsigned, 16>& c) { unsigned acc = 0; for (int i = 1; i < 16; i++) acc ^= gf_mulx(c[i], i); return acc; }
inline bool poly_valid(const std::array<unsigned, 16>& c) { unsigned acc = 0; for (int i = 0; i < 16; i++) acc ^= gf_mulx(c[i], i); return acc == 0; }

// ---------------------------------------------------------------- abstract seed
struct Seed {
    std::array<uint8_t, 19> secret{};  // 150 bits: bytes 0..17 and the low 6 bits of byte 18
    unsigned birthday = 0;             // 0..1023
    unsigned features = 0;             // 5 bits: bit4 encrypted, bit3 reserved, bits0..2 user
    bool operator==(const Seed& o) const { return secret == o.secret && birthday == o.birthday && features == o.features; }
    std::string describe() const { return "secret=" + vf::hex(secret.data(), 19) + " birthday=" + std::to_string(birthday) + " features=" + std::to_string(features); }
};
inline bool secret_bit(const Seed& s, int k) { // k = 0..149, MSB-first through bytes 0..17, then the low 6 bits of byte 18 MSB-first
    if (k < 144) return (s.secret[k / 8] >> (7 - k % 8)) & 1;
    return (s.secret[18] >> (5 - (k - 144))) & 1;
}
inline void set_secret_bit(Seed& s, int k, bool v) {
    int byte, sh; if (k < 144) { byte = k / 8; sh = 7 - k % 8; } else { byte = 18; sh = 5 - (k - 144); }
    if (v) s.secret[byte] |= (uint8_t)(1u << sh); else s.secret[byte] &= (uint8_t)~(1u << sh);
}
// coefficients c[1..15] (phrase words 2..16); c[0] (word 1) = check value
inline std::array<unsigned, 16> pack(const Seed& s) {
    std::array<unsigned, 16> c{};
    unsigned extra = (s.features << 10) | s.birthday;   // 15 bits, MSB first over words 2..16
    for (int i = 1; i <= 15; i++) {
        unsigned v = 0;
        for (int b = 0; b < 10; b++) v = (v << 1) | (secret_bit(s, 10 * (i - 1) + b) ? 1u : 0u);
        v = (v << 1) | ((extra >> (15 - i)) & 1u);
        c[i] = v;
    }
    c[0] = check_value(c);
    return c;
}
inline Seed unpack(const std::array<unsigned, 16>& c) {
    Seed s; unsigned extra = 0;
    for (int i = 1; i <= 15; i++) {
        for (int b = 0; b < 10; b++) set_secret_bit(s, 10 * (i - 1) + b, (c[i] >> (10 - b)) & 1u);
        extra = (extra << 1) | (c[i] & 1u);
    }
    s.birthday = extra & 1023u; s.features = extra >> 10;
    return s;
}

// ---------------------------------------------------------------- 32-byte storage image
inline std::array<uint8_t, 32> image(const Seed& s, unsigned check) {
    std::array<uint8_t, 32> b{};
    memcpy(b.data(), "POLYSEED", 8);
    unsigned v = (s.features << 10) | s.birthday; b[8] = (uint8_t)(v & 0xff); b[9] = (uint8_t)(v >> 8);
    memcpy(b.data() + 10, s.secret.data(), 19);
    b[29] = 0xFF;
    unsigned f = 0x7000u | check; b[30] = (uint8_t)(f & 0xff); b[31] = (uint8_t)(f >> 8);
    return b;
}
inline std::array<uint8_t, 32> image(const Seed& s) { return image(s, pack(s)[0]); }
enum Status { OK = 0, NUM_WORDS = 1, LANG = 2, CHECKSUM = 3, UNSUPPORTED = 4, FORMAT = 5, MEMORY = 6, MULT_LANG = 7 };
inline const char* status_name(int s) { static const char* n[] = {"OK", "NUM_WORDS", "LANG", "CHECKSUM", "UNSUPPORTED", "FORMAT", "MEMORY", "MULT_LANG"}; return s >= 0 && s < 8 ? n[s] : "?"; }
inline bool features_supported(unsigned features, unsigned mask) { return (features & ~((mask & 7u) | 16u) & 31u) == 0; }
// model verdict for polyseed_load (allocation assumed to succeed), precedence FORMAT > CHECKSUM > UNSUPPORTED
inline int load_verdict(const uint8_t* b, unsigned mask, Seed* out = nullptr) {
    if (memcmp(b, "POLYSEED", 8) != 0) return FORMAT;
    unsigned v = b[8] | (b[9] << 8); if (v & 0x8000u) return FORMAT;
    if (b[28] & 0xC0) return FORMAT;
    if (b[29] != 0xFF) return FORMAT;
    unsigned f = b[30] | (b[31] << 8); if ((f & 0xF800u) != 0x7000u) return FORMAT;
    Seed s; memcpy(s.secret.data(), b + 10, 19); s.birthday = v & 1023u; s.features = v >> 10;
    if (pack(s)[0] != (f & 0x7FFu)) return CHECKSUM;
    if (!features_supported(s.features, mask)) return UNSUPPORTED;
    if (out) *out = s;
    return OK;
}

// ---------------------------------------------------------------- KDF inputs
inline std::array<uint8_t, 32> keygen_password(const Seed& s) { std::array<uint8_t, 32> p{}; memcpy(p.data(), s.secret.data(), 19); return p; }
inline void le32(uint8_t* p, uint32_t v) { p[0] = (uint8_t)v; p[1] = (uint8_t)(v >> 8); p[2] = (uint8_t)(v >> 16); p[3] = (uint8_t)(v >> 24); }
inline std::array<uint8_t, 32> keygen_salt(const Seed& s, unsigned coin) {
    std::array<uint8_t, 32> t{}; memcpy(t.data(), "POLYSEED key", 12); t[12] = 0; t[13] = t[14] = t[15] = 0xFF;
    le32(&t[16], coin); le32(&t[20], s.birthday); le32(&t[24], s.features); le32(&t[28], 0);
    return t;
}
inline std::array<uint8_t, 16> crypt_salt() { std::array<uint8_t, 16> t{}; memcpy(t.data(), "POLYSEED mask", 13); t[13] = 0; t[14] = t[15] = 0xFF; return t; }
inline Seed crypt(const Seed& s, const uint8_t mask[32]) {
    Seed r = s; for (int i = 0; i < 19; i++) r.secret[i] ^= mask[i]; r.secret[18] &= 0x3F; r.features ^= 16u; return r;
}
constexpr uint64_t KDF_ITERATIONS = 10000;

// ---------------------------------------------------------------- birthday
constexpr uint64_t EPOCH = 1635768000ull;   // 1 November 2021 12:00 UTC
constexpr uint64_t STEP = 2629746ull;
inline unsigned birthday_index(uint64_t t) { if (t == UINT64_MAX || t < EPOCH) return 0; return (unsigned)(((t - EPOCH) / STEP) & 1023u); }
inline uint64_t birthday_time(unsigned k) { return EPOCH + (uint64_t)k * STEP; }

// ---------------------------------------------------------------- golden word lists (data as published at the pinned release)
struct Lang {
    std::string code, name_en, name, sep;
    bool compose = false, prefix = false, noaccent = false;
    std::vector<std::string> words;          // NFKD bytes as published
    std::map<std::string, int> index;        // word -> index
};
struct Golden {
    std::vector<Lang> langs;
    const Lang* by_name(const std::string& name_en) const { for (auto& l : langs) if (l.name_en == name_en) return &l; return nullptr; }
    static const Golden& get(const std::string& root = "") {
        static Golden g; static bool loaded = false;
        if (!loaded) { g.load(root.empty() ? vf::W().args.root : root); loaded = true; }
        return g;
    }
    void load(const std::string& root) {
        std::string tsv = vf::read_file(root + "/golden/langs.tsv");
        if (tsv.empty()) { fprintf(stderr, "FATAL: cannot read %s/golden/langs.tsv\n", root.c_str()); exit(2); }
        size_t pos = 0;
        while (pos < tsv.size()) {
            size_t e = tsv.find('\n', pos); if (e == std::string::npos) e = tsv.size();
            std::string line = tsv.substr(pos, e - pos); pos = e + 1; if (line.empty()) continue;
            std::vector<std::string> f; size_t p = 0;
            for (;;) { size_t t = line.find('\t', p); if (t == std::string::npos) { f.push_back(line.substr(p)); break; } f.push_back(line.substr(p, t - p)); p = t + 1; }
            if (f.size() < 7) continue;
            Lang l; l.code = f[0]; l.name_en = f[1]; l.name = f[2]; l.sep = vf::unhex(f[3]); l.compose = f[4] == "1"; l.prefix = f[5] == "1"; l.noaccent = f[6] == "1";
            std::string w = vf::read_file(root + "/golden/" + l.code + ".txt"); size_t q = 0;
            while (q < w.size()) { size_t t = w.find('\n', q); if (t == std::string::npos) t = w.size(); if (t > q) l.words.push_back(w.substr(q, t - q)); q = t + 1; }
            if (l.words.size() != 2048) { fprintf(stderr, "FATAL: golden list %s has %zu words\n", l.code.c_str(), l.words.size()); exit(2); }
            for (int i = 0; i < 2048; i++) l.index[l.words[i]] = i;
            langs.push_back(std::move(l));
        }
        if (langs.size() != 10) { fprintf(stderr, "FATAL: golden language table has %zu entries\n", langs.size()); exit(2); }
    }
};

// the phrase an independent implementation of the specification produces
inline std::string phrase(const Lang& l, const Seed& s, unsigned coin, std::array<unsigned, 16>* coeffs = nullptr) {
    auto c = pack(s); c[1] ^= coin;
    if (coeffs) *coeffs = c;
    std::string out;
    for (int i = 0; i < 16; i++) { if (i) out += l.sep; out += l.words[c[i]]; }
    return l.compose ? nfc(out) : out;
}
inline std::string phrase_from_coeffs(const Lang& l, const std::array<unsigned, 16>& c, bool composed = true) {
    std::string out; for (int i = 0; i < 16; i++) { if (i) out += l.sep; out += l.words[c[i]]; }
    return (l.compose && composed) ? nfc(out) : out;
}

// strip combining marks (after canonical decomposition) — "accent-stripped letters"
inline std::string strip_marks(const std::string& w) { std::vector<uint32_t> o; for (uint32_t c : codepoints(nfkd(w))) if (!is_mark(c)) o.push_back(c); return utf8(o); }
inline size_t letters(const std::string& w) { size_t n = 0; for (uint32_t c : codepoints(nfkd(w))) if (!is_mark(c)) n++; return n; }

// ---------------------------------------------------------------- self-check against the repository's published vectors (tests/tests.c)
// A model error must not silently align with the code: the model has to reproduce the three
// published vectors before any conformance check trusts it.
inline std::string self_check() {
    const Golden& g = Golden::get();
    auto sd = [](const char* h, uint64_t t, unsigned f) { Seed s; std::string b = vf::unhex(h); memcpy(s.secret.data(), b.data(), 19); s.secret[18] &= 0x3F; s.birthday = birthday_index(t); s.features = f; return s; };
    Seed s1 = sd("dd76e7359a0ded37cd0ff0f3c829a5ae0167f3", 1638446400ull, 0), s2 = sd("5a2b02df7db21fcbe6ec6df137d54c7b20fd2b", 3118651200ull, 0), s3 = sd("67b936dfa4da6ae8d3b3cdb3b937f4027b0e3b", 4305268800ull, 1);
    if (phrase(*g.by_name("English"), s1, 0) != "raven tail swear infant grief assist regular lamp duck valid someone little harsh puppy airport language") return "English vector";
    if (phrase(*g.by_name("Spanish"), s2, 0) != "eje fin parte c\xc3\xa9lebre tab\xc3\xba pesta\xc3\xb1""a lienzo puma prisi\xc3\xb3n hora regalo lengua existir l\xc3\xa1piz lote sonoro") return "Spanish vector";
    auto hx = [](const std::array<uint8_t, 32>& a) { return vf::hex(a.data(), 32); };
    if (hx(keygen_password(s1)) != "dd76e7359a0ded37cd0ff0f3c829a5ae01673300000000000000000000000000") return "pw 1";
    if (hx(keygen_salt(s1, 0)) != "504f4c5953454544206b657900ffffff00000000010000000000000000000000") return "salt 1";
    if (hx(keygen_salt(s2, 0)) != "504f4c5953454544206b657900ffffff00000000330200000000000000000000") return "salt 2";
    if (hx(keygen_password(s3)) != "67b936dfa4da6ae8d3b3cdb3b937f4027b0e3b00000000000000000000000000") return "pw 3";
    if (hx(keygen_salt(s3, 1)) != "504f4c5953454544206b657900ffffff01000000f70300000100000000000000") return "salt 3";
    auto cs = crypt_salt(); if (vf::hex(cs.data(), 16) != "504f4c5953454544206d61736b00ffff") return "mask salt";
    if (!(unpack(pack(s3)) == s3)) return "pack/unpack";
    if (load_verdict(image(s3).data(), 1) != OK || load_verdict(image(s3).data(), 0) != UNSUPPORTED) return "image verdict";
    return "";
}
inline void require_self_check() { std::string m = self_check(); if (!m.empty()) { fprintf(stderr, "MODEL-ERROR: reference model does not reproduce the published vector: %s\n", m.c_str()); exit(2); } }

} // namespace model
