// libFuzzer target shared by C09 and C14: bytes are decoded into structured API arguments
// (coin, normaliser mode, allocation-failure switch, then a raw string | a word-level phrase
// description | a password | a 32-byte buffer) and the semantic oracles run inside the target:
// differential auto-vs-explicit decoding, reference tokenizer, status ranges, input immutability,
// allocator ledger — under ASan + UBSan with the library's assertions enabled.
#include <fuzzer/FuzzedDataProvider.h>
#include "decode_oracle.hpp"
#include <unistd.h>

using namespace vf;
static const lib::Registry* REG; static const model::Golden* GOLD; static std::string OUT_BASE; static std::string PROP = "C14";

static void flush_evidence() { if (!OUT_BASE.empty()) W().ev.write(OUT_BASE); }
[[noreturn]] static void oracle_fail(const std::string& msg, const uint8_t* data, size_t size) {
    fprintf(stderr, "ORACLE-FAIL property=%s: %s\ninput=%s\n", PROP.c_str(), msg.c_str(), hex(data, size).c_str());
    flush_evidence(); __builtin_trap();
}

extern "C" int LLVMFuzzerInitialize(int*, char***) {
    Worker& w = W(); if (const char* r = getenv("VERIF_ROOT")) w.args.root = r;
    if (const char* p = getenv("VERIF_FUZZ_PROP")) PROP = p; w.args.id = PROP; w.args.variant = "fuzz";
    if (const char* o = getenv("VERIF_FUZZ_OUT")) OUT_BASE = o;
    deps::inject(0); REG = &lib::Registry::get(); GOLD = &model::Golden::get(); polyseed_enable_features(7);
    atexit(flush_evidence);
    return 0;
}

static std::string build_phrase(FuzzedDataProvider& fdp, unsigned& coin) {
    // a phrase that is valid in one language (check word from the reference arithmetic), then word-level mutations
    const model::Lang& gl = GOLD->langs[fdp.ConsumeIntegralInRange<size_t>(0, GOLD->langs.size() - 1)];
    std::array<unsigned, 16> co{}; for (int i = 1; i < 16; i++) co[i] = fdp.ConsumeIntegralInRange<unsigned>(0, 2047);
    if (!fdp.ConsumeBool()) co[2] &= ~1u; if (!fdp.ConsumeBool()) { co[3] &= ~1u; co[4] &= ~1u; co[5] &= ~1u; }
    co[0] = model::check_value(co) ^ (fdp.ConsumeBool() ? 0u : fdp.ConsumeIntegralInRange<unsigned>(0, 2047)); co[1] ^= coin;
    std::vector<std::string> t(16); for (int i = 0; i < 16; i++) t[i] = gl.words[co[i] & 2047u];
    if (fdp.ConsumeBool()) for (auto& x : t) x = model::nfc(x);
    std::vector<std::string> seps(32, fdp.ConsumeBool() ? gl.sep : std::string(" ")); std::string lead, trail;
    int nmut = fdp.ConsumeIntegralInRange<int>(0, 4);
    static const char* SEPS[] = {" ", "  ", "\xe3\x80\x80", "\xc2\xa0", "\t", "", "\xe2\x80\x83", "\n"};
    for (int m = 0; m < nmut && !t.empty(); m++) {
        int op = fdp.ConsumeIntegralInRange<int>(0, 11); size_t p = fdp.ConsumeIntegralInRange<size_t>(0, t.size() - 1);
        switch (op) {
        case 0: seps[p] = SEPS[fdp.ConsumeIntegralInRange<int>(0, 7)]; break;
        case 1: lead = SEPS[fdp.ConsumeIntegralInRange<int>(0, 7)]; break;
        case 2: trail = SEPS[fdp.ConsumeIntegralInRange<int>(0, 7)]; break;
        case 3: t.erase(t.begin() + (long)p); break;
        case 4: t.insert(t.begin() + (long)p, t[p]); break;
        case 5: t[p] = GOLD->langs[fdp.ConsumeIntegralInRange<size_t>(0, GOLD->langs.size() - 1)].words[fdp.ConsumeIntegralInRange<unsigned>(0, 2047)]; break;
        case 6: t[p].clear(); break;
        case 7: { auto cps = model::codepoints(fdp.ConsumeBool() ? model::strip_marks(t[p]) : model::nfkd(t[p])); size_t n = fdp.ConsumeIntegralInRange<size_t>(0, cps.size()); cps.resize(n); t[p] = model::utf8(cps); } break;
        case 8: { std::string x = fdp.ConsumeBytesAsString(fdp.ConsumeIntegralInRange<size_t>(0, 6)); if (fdp.ConsumeBool()) t[p] += x; else t[p] = x + t[p]; } break;
        case 9: coin = fdp.ConsumeIntegralInRange<unsigned>(0, 2047); break;
        case 10: t[p] = std::string(fdp.ConsumeIntegralInRange<size_t>(0, 600), (char)fdp.ConsumeIntegralInRange<int>(0x21, 0x7E)); break;
        case 11: { std::string acc; size_t n = fdp.ConsumeIntegralInRange<size_t>(0, 200); for (size_t i = 0; i < n; i++) acc += "\xcc\x81"; t[p] += acc; } break;
        }
    }
    std::string s = lead; for (size_t i = 0; i < t.size(); i++) { if (i) s += seps[(i - 1) % seps.size()]; s += t[i]; } s += trail; return s;
}

extern "C" int LLVMFuzzerTestOneInput(const uint8_t* data, size_t size) {
    deps::Kit& k = deps::kit(0); k.reset_all(); Evidence& ev = W().ev;
    // no state may leak between iterations: kit reset above, feature mask re-set here, no live seeds are kept
    FuzzedDataProvider fdp(data, size);
    int mode = fdp.ConsumeIntegralInRange<int>(0, 4); unsigned coin = fdp.ConsumeIntegralInRange<unsigned>(0, 2047);
    k.lenient = fdp.ConsumeBool(); bool allocfail = fdp.ConsumeBool(); unsigned mask = fdp.ConsumeIntegralInRange<unsigned>(0, 7); polyseed_enable_features(fdp.ConsumeBool() ? 7u : mask);
    if (!k.live.empty()) { if (PROP == "C14") oracle_fail("a seed block of the previous call is still allocated", data, size); for (auto& b : k.live) free(b.first); k.live.clear(); }
    if (mode <= 2) {
        std::string s = mode == 0 ? fdp.ConsumeRemainingBytesAsString() : build_phrase(fdp, coin);
        dor::Result r; std::string m = dor::check(s, coin, allocfail, &r, /*c14_only=*/PROP != "C09");
        if (!m.empty()) oracle_fail(m, data, size);
        std::string cut = s.substr(0, s.find('\0')); bool near = cut.size() + 8 >= POLYSEED_STR_SIZE && cut.size() <= POLYSEED_STR_SIZE + 8;
        bool nt = PROP == "C09" ? (r.R >= 1 || (r.tokens >= 15 && r.tokens <= 17)) : (r.tokens >= 16 || !r.E.empty() && r.E[0] != model::NUM_WORDS || near || r.nonascii);
        ev.eval(); ev.count(r.cls); ev.count(mode == 0 ? "mode:raw-string" : "mode:structured-phrase"); if (near) ev.count("length-near-buffer-size"); if (r.nonascii) ev.count("non-ascii"); if (!r.valid_utf8) ev.count("invalid-utf8");
        if (nt) { ev.nt(fnv1a(cut) ^ coin); if (ev.samples[r.cls].size() < Evidence::kSamples) { Case c; c.set("s", hex(cut)); c.set("coin", coin); ev.sample(r.cls, c); } }
    } else if (mode == 3) {
        // password: any bytes.  The seed must stay well-formed and the input untouched.
        std::string pw = fdp.ConsumeRemainingBytesAsString(); pw = pw.substr(0, pw.find('\0'));
        k.rand_bytes.assign(19, 0x5A); polyseed_data* s = nullptr; if (polyseed_create(0, &s) != 0) oracle_fail("create failed", data, size);
        char* in = (char*)malloc(pw.size() + 1); memcpy(in, pw.c_str(), pw.size() + 1);
        k.kdf.clear(); polyseed_crypt(s, in);
        if (memcmp(in, pw.c_str(), pw.size() + 1) != 0) oracle_fail("crypt modified the password", data, size); free(in);
        if (k.kdf.size() != 1 || k.kdf[0].pwlen > POLYSEED_STR_SIZE - 1 || k.kdf[0].keylen != 32) oracle_fail("crypt: KDF called " + std::to_string(k.kdf.size()) + " times or with an out-of-range password length", data, size);
        if (polyseed_is_encrypted(s) != 1) oracle_fail("crypt did not set the encrypted flag", data, size);
        lib::Image img = lib::store(s); polyseed_data* l = nullptr; int st = polyseed_load(img.data(), &l); if (st != 0) oracle_fail(std::string("seed after crypt does not load: ") + model::status_name(st), data, size);
        polyseed_free(l); polyseed_free(s); if (!k.live.empty() || !k.ledger_errors.empty()) oracle_fail("ledger after crypt", data, size);
        bool nonascii = false; for (unsigned char ch : pw) if (ch >= 0x80) nonascii = true;
        ev.eval(); ev.count("mode:password"); if (nonascii || pw.size() + 8 >= POLYSEED_STR_SIZE) ev.nt(fnv1a(pw)); if (nonascii && ev.samples["password"].size() < 2) { Case c; c.set("password", hex(pw)); ev.sample("password", c); }
    } else {
        // 32-byte buffer for load (short inputs are padded from a valid image so the header is often right)
        std::vector<uint8_t> b = fdp.ConsumeBytes<uint8_t>(32); model::Seed ms; auto img = model::image(ms); for (size_t i = b.size(); i < 32; i++) b.push_back(img[i]);
        if (fdp.ConsumeBool()) memcpy(b.data(), "POLYSEED", 8);
        unsigned off = mask & 1u; uint8_t* raw = (uint8_t*)malloc(32 + off); uint8_t* in = raw + off; memcpy(in, b.data(), 32); if (allocfail) k.fail_all = true;   // odd start address half of the time
        polyseed_data* s = nullptr; int st = polyseed_load(in, &s); k.fail_all = false;
        if (memcmp(in, b.data(), 32) != 0) oracle_fail("load modified its input", data, size); free(raw);
        if (!(st == 0 || st == model::FORMAT || st == model::CHECKSUM || st == model::UNSUPPORTED || st == model::MEMORY)) oracle_fail("load returned undocumented status " + std::to_string(st), data, size);
        if (allocfail && st != model::MEMORY && k.alloc_failed) oracle_fail("allocation failed in load but status is not MEMORY", data, size);
        if (st == 0) { lib::Image back = lib::store(s); if (memcmp(back.data(), b.data(), 32) != 0) oracle_fail("load accepted a buffer that store does not reproduce", data, size); polyseed_free(s); }
        if (!k.live.empty() || !k.ledger_errors.empty()) oracle_fail("ledger after load", data, size);
        ev.eval(); ev.count(std::string("mode:load/") + model::status_name(st)); if (memcmp(b.data(), "POLYSEED", 8) == 0) ev.nt(fnv1a(b.data(), 32));
    }
    return 0;
}
