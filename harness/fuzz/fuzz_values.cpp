// libFuzzer target for VALUE-level inputs (C03, C04, C06, C12, C18): the fuzzer's bytes are the random-source output, the
// clock reading, the KDF output (mask), the 32-byte image, the seed fields, coin and key size themselves, and the model
// oracle of the owning property runs inside the target.  What this adds to the rapidcheck checks: the library is built with
// comparison tracing (-fsanitize=fuzzer-no-link), so libFuzzer sees the operands of the library's integer and memcmp
// comparisons and can reach behaviour guarded by one particular 16/32/64-bit value (a magic clock reading, one coin value
// together with one birthday, a particular image) that uniform generation meets with probability 2^-32 or less.
// VERIF_FUZZ_PROP selects the mode; one process = one mode, so the corpus of a mode is homogeneous.
#include <fuzzer/FuzzedDataProvider.h>
#include "lib.hpp"
#include <unistd.h>

using namespace vf;
static const lib::Registry* REG; static const model::Golden* GOLD; static std::string OUT_BASE; static std::string PROP = "C06";

static void flush_evidence() { if (!OUT_BASE.empty()) W().ev.write(OUT_BASE); }
[[noreturn]] static void oracle_fail(const std::string& msg, const uint8_t* data, size_t size) {
    fprintf(stderr, "ORACLE-FAIL property=%s: %s\ninput=%s\n", PROP.c_str(), msg.c_str(), hex(data, size).c_str());
    flush_evidence(); __builtin_trap();
}
extern "C" int LLVMFuzzerInitialize(int*, char***) {
    Worker& w = W(); if (const char* r = getenv("VERIF_ROOT")) w.args.root = r;
    if (const char* p = getenv("VERIF_FUZZ_PROP")) PROP = p; w.args.id = PROP; w.args.variant = "fuzz";
    if (const char* o = getenv("VERIF_FUZZ_OUT")) OUT_BASE = o;
    deps::inject(0); REG = &lib::Registry::get(); GOLD = &model::Golden::get(); model::require_self_check(); polyseed_enable_features(7);
    atexit(flush_evidence);
    return 0;
}

static model::Seed take_seed(FuzzedDataProvider& fdp) {   // fields first (integrals come from the end of the input), secret bytes from the front
    model::Seed ms; ms.birthday = fdp.ConsumeIntegralInRange<unsigned>(0, 1023); ms.features = fdp.ConsumeIntegralInRange<unsigned>(0, 31) & 0x17u;
    std::vector<uint8_t> sec = fdp.ConsumeBytes<uint8_t>(19); sec.resize(19, 0); memcpy(ms.secret.data(), sec.data(), 19); ms.secret[18] &= 0x3F; return ms;
}
static std::string img_hex(const lib::Image& i) { return hex(i.data(), 32); }

extern "C" int LLVMFuzzerTestOneInput(const uint8_t* data, size_t size) {
    deps::Kit& k = deps::kit(0); k.reset_all(); Evidence& ev = W().ev; polyseed_enable_features(7);   // nothing leaks between iterations
    for (auto& b : k.live) free(b.first); k.live.clear();
    FuzzedDataProvider fdp(data, size);
    if (PROP == "C06") {
        // ---- load: any 32 bytes under any enabled mask, verdict of the specification
        unsigned mask = fdp.ConsumeIntegralInRange<unsigned>(0, 7); bool fix_header = fdp.ConsumeBool(), fix_frame = fdp.ConsumeBool(), fix_check = fdp.ConsumeBool();
        std::vector<uint8_t> b = fdp.ConsumeBytes<uint8_t>(32); { model::Seed z; auto zi = model::image(z); for (size_t i = b.size(); i < 32; i++) b.push_back(zi[i]); }
        if (fix_header) memcpy(b.data(), "POLYSEED", 8);
        if (fix_frame) { b[29] = 0xFF; b[31] = (uint8_t)(0x70 | (b[31] & 7)); b[28] &= 0x3F; b[9] &= 0x7F; }
        if (fix_check && fix_frame) { model::Seed s; memcpy(s.secret.data(), b.data() + 10, 19); unsigned v = b[8] | (b[9] << 8); s.birthday = v & 1023u; s.features = (v >> 10) & 31u; unsigned f = 0x7000u | model::pack(s)[0]; b[30] = (uint8_t)f; b[31] = (uint8_t)(f >> 8); }
        polyseed_enable_features(mask);
        model::Seed ms; int expect = model::load_verdict(b.data(), mask, &ms);
        polyseed_data* s = nullptr; int st = (int)polyseed_load(b.data(), &s);
        if (st != expect) oracle_fail(std::string("load returned ") + model::status_name(st) + ", the specification says " + model::status_name(expect) + " for buffer " + hex(b.data(), 32) + " (enabled mask " + std::to_string(mask) + ")", data, size);
        if (st == 0) { lib::Image back = lib::store(s); if (memcmp(back.data(), b.data(), 32) != 0) oracle_fail("load accepted a buffer that store does not reproduce: " + hex(b.data(), 32) + " -> " + img_hex(back), data, size);
            if (polyseed_get_birthday(s) != model::birthday_time(ms.birthday) || polyseed_get_feature(s, 7) != (ms.features & 7u) || polyseed_is_encrypted(s) != (int)((ms.features >> 4) & 1u)) oracle_fail("loaded seed reports other birthday / features than the buffer holds: " + hex(b.data(), 32), data, size);
            polyseed_free(s); }
        ev.eval(); ev.count(std::string("verdict:") + model::status_name(st)); if (memcmp(b.data(), "POLYSEED", 8) == 0) ev.nt(fnv1a(b.data(), 32) ^ mask); else ev.count("trivial(header-mismatch)");
        if (st == 0 && ev.samples["accepted"].size() < 2) { Case c; c.set("buffer", hex(b.data(), 32)); c.set("mask", mask); ev.sample("accepted", c); }
    } else if (PROP == "C12") {
        // ---- crypt: the KDF output (mask) is the fuzzer's
        static const char* PW[] = {"", "pw", "contrase\xc3\xb1""a", "contrasen\xcc\x83""a", "\xef\xbd\x90\xef\xbd\x97", "correct horse battery staple"};
        int pwi = fdp.ConsumeIntegralInRange<int>(0, 5); model::Seed ms = take_seed(fdp);
        std::vector<uint8_t> mask = fdp.ConsumeBytes<uint8_t>(32); mask.resize(32, 0);
        polyseed_data* s = nullptr; if (lib::load_model(ms, &s) != 0) oracle_fail("cannot build the seed " + img_hex(model::image(ms)), data, size);
        k.kdf_mode = deps::KDF_FIXED; memcpy(k.kdf_fixed, mask.data(), 32); k.kdf.clear();
        polyseed_crypt(s, PW[pwi]);
        model::Seed want = model::crypt(ms, mask.data());
        if (k.kdf.size() != 1) oracle_fail("crypt called the KDF " + std::to_string(k.kdf.size()) + " times", data, size);
        { const deps::KdfCall& kc = k.kdf[0]; std::string pwn = model::nfkd(PW[pwi]); auto salt = model::crypt_salt();
          if (kc.pwlen != pwn.size() || std::string(kc.pw.begin(), kc.pw.end()) != pwn || kc.saltlen != 16 || memcmp(kc.salt.data(), salt.data(), 16) != 0 || kc.iterations != model::KDF_ITERATIONS || kc.keylen != 32) oracle_fail("crypt: KDF arguments are not (NFKD(password), 'POLYSEED mask' 00 FF FF, 10000, 32): " + lib::kdf_str(kc), data, size); }
        lib::Image got = lib::store(s);
        if (got != model::image(want)) oracle_fail("crypt with mask " + hex(mask.data(), 32) + " on " + img_hex(model::image(ms)) + " gives " + img_hex(got) + ", the specification gives " + img_hex(model::image(want)), data, size);
        if (polyseed_is_encrypted(s) != (int)((want.features >> 4) & 1u) || polyseed_get_birthday(s) != model::birthday_time(ms.birthday) || polyseed_get_feature(s, 7) != (ms.features & 7u)) oracle_fail("crypt: flag / birthday / user features wrong after mask " + hex(mask.data(), 32), data, size);
        polyseed_crypt(s, PW[pwi]);
        if (lib::store(s) != model::image(ms)) oracle_fail("applying the same password (mask " + hex(mask.data(), 32) + ") twice does not restore the seed " + img_hex(model::image(ms)), data, size);
        polyseed_free(s);
        ev.eval(); ev.nt(fnv1a(data, size)); ev.count("mode:crypt-with-fuzzed-mask"); if (mask[18] & 0xC0) ev.count("mask-top-bits-of-byte18-set");
        if (ev.samples["crypt"].size() < 2) { Case c; c.set("seed", img_hex(model::image(ms))); c.set("mask", hex(mask.data(), 32)); ev.sample("crypt", c); }
    } else if (PROP == "C18") {
        // ---- create: the random-source output and the clock reading are the fuzzer's
        unsigned m = fdp.ConsumeIntegralInRange<unsigned>(0, 7); unsigned f = fdp.ConsumeIntegralInRange<unsigned>(0, 7); if (fdp.ConsumeBool()) f &= m; bool hi = fdp.ConsumeBool();
        uint64_t t; int tk = fdp.ConsumeIntegralInRange<int>(0, 3); uint64_t raw = fdp.ConsumeIntegral<uint64_t>();
        if (tk == 0) t = raw; else if (tk == 1) t = model::EPOCH + raw % (1024 * model::STEP); else if (tk == 2) t = model::EPOCH + (raw % 1025) * model::STEP + (uint64_t)((int64_t)(raw >> 32) % 3 - 1); else t = (uint32_t)raw;
        std::vector<uint8_t> rnd = fdp.ConsumeBytes<uint8_t>(19); rnd.resize(19, 0);
        polyseed_enable_features(m); k.rand_bytes = rnd; k.rand_pos = 0; k.clock = t;
        polyseed_data* s = nullptr; int st = (int)polyseed_create(f | (hi ? 0xFFFFFFE0u : 0u), &s);
        bool ok = (f & ~m & 7u) == 0;
        if (st != (ok ? model::OK : model::UNSUPPORTED)) oracle_fail("create(" + std::to_string(f) + ") under mask " + std::to_string(m) + " returned " + model::status_name(st), data, size);
        if (st == 0) {
            if (k.rand_total != 19 || k.time_calls < 1) oracle_fail("create took " + std::to_string(k.rand_total) + " random bytes and read the clock " + std::to_string(k.time_calls) + " times", data, size);
            lib::Image img = lib::store(s); model::Seed want; memcpy(want.secret.data(), rnd.data(), 19); want.secret[18] &= 0x3F; want.features = f & 7u;
            bool beyond = t != UINT64_MAX && t >= model::EPOCH + 1024 * model::STEP;
            want.birthday = beyond ? ((img[8] | (img[9] << 8)) & 1023u) /* no property fixes the month beyond the 1024-month range */ : model::birthday_index(t);
            if (img != model::image(want)) oracle_fail("create with random bytes " + hex(rnd.data(), 19) + " at clock " + std::to_string(t) + " gives " + img_hex(img) + ", expected " + img_hex(model::image(want)), data, size);
            polyseed_free(s); ev.count(beyond ? "clock:beyond-range" : t < model::EPOCH || t == UINT64_MAX ? "clock:before-epoch-or-error" : "clock:in-range");
        }
        ev.eval(); ev.nt(fnv1a(data, size)); ev.count(std::string("create:") + model::status_name(st));
        if (ev.samples["create"].size() < 2) { Case c; c.set("random", hex(rnd.data(), 19)); c.set("clock", t); c.set("features", f); c.set("mask", m); ev.sample("create", c); }
    } else if (PROP == "C04") {
        // ---- keygen: seed fields, coin and key size are the fuzzer's
        unsigned coin = fdp.ConsumeIntegralInRange<unsigned>(0, 2047); size_t ks = fdp.ConsumeIntegralInRange<size_t>(0, 96); model::Seed ms = take_seed(fdp);
        polyseed_data* s = nullptr; if (lib::load_model(ms, &s) != 0) oracle_fail("cannot build the seed " + img_hex(model::image(ms)), data, size);
        std::vector<uint8_t> key(ks + 8, 0x4B); k.kdf.clear(); k.kdf_mode = deps::KDF_MIX;
        polyseed_keygen(s, (polyseed_coin)coin, ks, key.data() + 4);
        if (k.kdf.size() != 1) oracle_fail("keygen called the KDF " + std::to_string(k.kdf.size()) + " times", data, size);
        const deps::KdfCall& kc = k.kdf[0]; auto pw = model::keygen_password(ms); auto salt = model::keygen_salt(ms, coin);
        if (kc.pwlen != 32 || memcmp(kc.pw.data(), pw.data(), 32) != 0 || kc.saltlen != 32 || memcmp(kc.salt.data(), salt.data(), 32) != 0 || kc.iterations != model::KDF_ITERATIONS || kc.key != key.data() + 4 || kc.keylen != ks)
            oracle_fail("keygen(coin " + std::to_string(coin) + ", size " + std::to_string(ks) + ") of " + img_hex(model::image(ms)) + ": KDF arguments " + lib::kdf_str(kc) + " differ from the specification (salt " + hex(salt.data(), 32) + ")", data, size);
        for (int i = 0; i < 4; i++) if (key[(size_t)i] != 0x4B || key[ks + 4 + (size_t)i] != 0x4B) oracle_fail("keygen wrote outside the key buffer", data, size);
        std::vector<uint8_t> want(ks); deps::kdf_fill(k, pw.data(), 32, salt.data(), 32, want.data(), ks); if (ks && memcmp(want.data(), key.data() + 4, ks) != 0) oracle_fail("the key differs from what the KDF delivered (rewritten afterwards)", data, size);
        if (lib::store(s) != model::image(ms)) oracle_fail("keygen changed the seed", data, size);
        polyseed_free(s); ev.eval(); ev.nt(fnv1a(data, size)); ev.count("mode:keygen"); if (coin > 2) ev.count("coin>2");
        if (ev.samples["keygen"].size() < 2) { Case c; c.set("seed", img_hex(model::image(ms))); c.set("coin", coin); c.set("size", (uint64_t)ks); ev.sample("keygen", c); }
    } else {
        // ---- C03: encode against the reference encoder, and back
        unsigned coin = fdp.ConsumeIntegralInRange<unsigned>(0, 2047); size_t li = fdp.ConsumeIntegralInRange<size_t>(0, REG->size() - 1); model::Seed ms = take_seed(fdp);
        const lib::LangEntry& le = REG->at(li); if (!le.golden) return 0;
        polyseed_data* s = nullptr; if (lib::load_model(ms, &s) != 0) oracle_fail("cannot build the seed " + img_hex(model::image(ms)), data, size);
        size_t n = 0; std::string ph = lib::encode(s, le.lang, coin, &n); std::string want = model::phrase(*le.golden, ms, coin);
        if (ph != want) oracle_fail("encode of " + img_hex(model::image(ms)) + " for coin " + std::to_string(coin) + " in " + le.name_en + " gives [" + ph + "], the specification gives [" + want + "]", data, size);
        if (n != ph.size()) oracle_fail("encode returned length " + std::to_string(n) + " for a phrase of " + std::to_string(ph.size()) + " bytes", data, size);
        lib::Image back; int st = lib::decode_x(ph, coin, le.lang, &back);
        if (st != 0 || back != model::image(ms)) oracle_fail("the specified phrase [" + want + "] decodes to " + model::status_name(st) + (st == 0 ? " / another seed" : ""), data, size);
        polyseed_free(s); ev.eval(); ev.nt(fnv1a(data, size)); ev.count("lang:" + le.name_en);
        if (ev.samples[le.name_en].size() < 1) { Case c; c.set("seed", img_hex(model::image(ms))); c.set("coin", coin); c.set("lang", le.name_en); ev.sample(le.name_en, c); }
    }
    if (!k.ledger_errors.empty()) oracle_fail("allocator ledger: " + k.ledger_errors[0], data, size);
    return 0;
}
