// C20 — concurrent use of distinct seeds from several threads is race-free.
// N threads each run their own generated operation script on their own seed objects against a
// ThreadSanitizer build; the stubs yield at every dependency call to vary interleavings.  Oracle: no
// ThreadSanitizer report, and each thread's transcript equals the transcript of the same script run alone.
#include "seqgen.hpp"
#include <thread>
#include <atomic>
#include <sys/wait.h>
using namespace vf;

static std::atomic<int> g_inflight{0}; static std::atomic<int> g_maxflight{0}; static std::atomic<int> g_go{0};

static unsigned g_opt = deps::OPT_ALL;
static std::vector<std::string> run_script(const std::vector<ops::Op>& seq, int yield_mode, uint64_t salt, std::string* err) {
    std::vector<std::string> T; ops::Machine m; m.fl.check_model = false; m.fl.check_ledger = true; m.fl.check_routing = false; m.fl.allow_inject = false; m.log = &T;
    m.start(false, false); m.mask = 7; m.opt = g_opt; m.rand_ctr = salt; deps::kit(0).yield_mode = yield_mode; deps::kit(0).foreign_ok = !(g_opt & deps::OPT_ALLOC); deps::kit(0).track = (g_opt & deps::OPT_ALLOC) && (g_opt & deps::OPT_FREE);
    std::string r = m.run(seq); if (!r.empty()) *err = r;
    return T;
}

// case: n(threads) yield scripts(hex of per-thread ops, ';' separated)
static bool g_poly_used = false; static std::string coldstart_threads(const Case& c);
static std::string oracle(const Case& c) {
    if (c.get("kind") == "coldstart") return coldstart_threads(c);
    g_poly_used = true;
    Evidence& ev = W().ev; int n = (int)c.u("n", 2); int ym = (int)c.u("yield"); std::vector<std::vector<ops::Op>> scripts;
    { std::string all = c.get("scripts"); size_t p = 0; for (;;) { size_t e = all.find(';', p); scripts.push_back(ops::from_hex(all.substr(p, e == std::string::npos ? std::string::npos : e - p))); if (e == std::string::npos) break; p = e + 1; } }
    while ((int)scripts.size() < n) scripts.push_back(scripts[0]); scripts.resize((size_t)n);
    for (auto& sc : scripts) for (auto& o : sc) if (o.code == ops::INJECT || o.code == ops::ENABLE) o.code = ops::QUERY;  // configuration is fixed before the threads start
    // dependencies are injected once, before any thread starts; in some cases alloc/free are left NULL (libc defaults)
    g_opt = c.u("libc_alloc") ? deps::OPT_TIME : deps::OPT_ALL; deps::inject(0, g_opt); polyseed_enable_features(7);
    std::vector<std::vector<std::string>> conc((size_t)n), solo((size_t)n); std::vector<std::string> errs((size_t)n), errs2((size_t)n);
    g_go.store(0, std::memory_order_relaxed); g_maxflight.store(0, std::memory_order_relaxed); std::vector<std::thread> th;
    for (int i = 0; i < n; i++) th.emplace_back([&, i]() {
        while (!g_go.load(std::memory_order_acquire)) { }
        int f = g_inflight.fetch_add(1, std::memory_order_relaxed) + 1; int mx = g_maxflight.load(std::memory_order_relaxed); while (f > mx && !g_maxflight.compare_exchange_weak(mx, f, std::memory_order_relaxed)) { }
        conc[(size_t)i] = run_script(scripts[(size_t)i], ym, 1000 + (uint64_t)i, &errs[(size_t)i]);
        g_inflight.fetch_sub(1, std::memory_order_relaxed);
    });
    g_go.store(1, std::memory_order_release); for (auto& t : th) t.join();
    for (int i = 0; i < n; i++) if (!errs[(size_t)i].empty()) return "thread " + std::to_string(i) + ": " + errs[(size_t)i];
    for (int i = 0; i < n; i++) { solo[(size_t)i] = run_script(scripts[(size_t)i], 0, 1000 + (uint64_t)i, &errs2[(size_t)i]); if (!errs2[(size_t)i].empty()) return "serial re-run of thread " + std::to_string(i) + ": " + errs2[(size_t)i]; }
    for (int i = 0; i < n; i++) { if (conc[(size_t)i].size() != solo[(size_t)i].size()) return "thread " + std::to_string(i) + ": transcript length differs from the serial run";
        for (size_t j = 0; j < conc[(size_t)i].size(); j++) if (conc[(size_t)i][j] != solo[(size_t)i][j]) return "thread " + std::to_string(i) + " step " + std::to_string(j) + " observed [" + conc[(size_t)i][j].substr(0, 300) + "] but a serial execution gives [" + solo[(size_t)i][j].substr(0, 300) + "]"; }
    int mf = g_maxflight.load(std::memory_order_relaxed); size_t total = 0; for (auto& s : scripts) total += s.size();
    ev.eval(); ev.count("threads:" + std::to_string(n)); ev.count("ops-executed", total); ev.count("yield-mode:" + std::to_string(ym)); ev.count(c.u("libc_alloc") ? "allocator:libc-default" : "allocator:injected");
    if (mf >= 2) { ev.nt(c); ev.count("overlapping(>=2 threads in flight)"); ev.sample("n=" + std::to_string(n), c); } else ev.count("trivial(no overlap observed)");
    return "";
}

// First use under contention: a child forked before this process has evaluated any polynomial starts 8 threads at a barrier;
// each creates a seed, encodes it and decodes it again.  Whatever the library builds lazily on first use is built here with
// all threads inside the library at once.  The child fails on a ThreadSanitizer report (exit 77) or a wrong result.
static std::string coldstart_threads(const Case& c) {
    if (g_poly_used) return ""; int rounds = (int)c.u("rounds", 8); Evidence& ev = W().ev;
    for (int r = 0; r < rounds; r++) {
        fflush(stdout); fflush(stderr); pid_t ch = fork(); if (ch < 0) return "";
        if (ch == 0) {
            W().in_child = true; const int N = 8; std::atomic<int> go{0}; std::atomic<int> bad{0}; std::vector<std::thread> th; const lib::Registry& REG = lib::Registry::get();
            for (int i = 0; i < N; i++) th.emplace_back([&, i]() {
                deps::Kit& k = deps::kit(0); k.reset_all(); std::vector<uint8_t> rnd(19); for (int j = 0; j < 19; j++) rnd[j] = (uint8_t)(i * 37 + j * 11 + r); k.rand_bytes = rnd; k.clock = model::EPOCH + (uint64_t)i * model::STEP;
                while (!go.load(std::memory_order_acquire)) { }
                polyseed_data* s = nullptr; if (polyseed_create(0, &s) != 0) { bad++; return; } const lib::LangEntry& le = REG.at((size_t)(i + r)); std::string ph = lib::encode(s, le.lang, (unsigned)i);
                lib::Image a = lib::store(s), b; int st = lib::decode_x(ph, (unsigned)i, le.lang, &b); if (st != 0 || a != b) bad++; polyseed_data* l = nullptr; if (polyseed_load(a.data(), &l) != 0) bad++; else polyseed_free(l); polyseed_free(s);
            });
            go.store(1, std::memory_order_release); for (auto& t : th) t.join(); _exit(bad.load() ? 1 : 0);
        }
        int st = 0; waitpid(ch, &st, 0);
        if (!WIFEXITED(st) || WEXITSTATUS(st) != 0) return "eight threads using the library for the first time in a fresh process: " + std::string(WIFEXITED(st) && WEXITSTATUS(st) == 1 ? "a thread got a wrong result (its own seed did not round-trip / load)" : "the process ended abnormally (ThreadSanitizer report or signal)") + " in round " + std::to_string(r + 1);
    }
    ev.eval((uint64_t)rounds); ev.count("cold-start-under-contention", (uint64_t)rounds); ev.nt(c); return "";
}

static void run() {
    Args& a = W().args; { Case c; c.set("phase", "setup"); set_current(c); }
    deps::inject(0); polyseed_enable_features(7); lib::Registry::get(); model::Golden::get();
    { Case c; c.set("kind", "coldstart"); c.set("rounds", (uint64_t)a.n(6, 40)); set_current(c); std::string m = oracle(c); if (!m.empty() && enum_fail(c, m)) return; }
    seqgen::Weights wt{{0, 0, 10, 8, 8, 8, 8, 10, 4, 4, 2, 5, 1, 1}};
    rc_run("c20-threads", a.n(25, 600), 100, [&]() {
        int n = *rc::gen::element(2, 4, 8, 16, 4, 8); int ym = *rc::gen::element(0, 1, 1, 2, 5); std::string all;
        for (int i = 0; i < n; i++) { auto seq = *seqgen::sequence(wt, *rc::gen::element(10, 25, 50)); if (i) all += ";"; all += ops::to_hex(seq); }
        Case c; c.set("n", (uint64_t)n); c.set("yield", (uint64_t)ym); c.set("scripts", all); c.set("libc_alloc", *in_range<unsigned>(0, 2)); set_current(c);
        std::string m = oracle(c); if (!m.empty()) VF_FAIL(c, m);
    });
}
int main(int argc, char** argv) { return worker_main(argc, argv, "C20", Hooks{run, [](const Case& c) { deps::inject(0); polyseed_enable_features(7); lib::Registry::get(); model::Golden::get(); return oracle(c); }}); }
