// C20 — concurrent use of distinct seeds from several threads is race-free.
// N threads each run their own generated operation script on their own seed objects against a
// ThreadSanitizer build; the stubs yield at every dependency call to vary interleavings.  Oracle: no
// ThreadSanitizer report, and each thread's transcript equals the transcript of the same script run alone.
#include "seqgen.hpp"
#include <thread>
#include <atomic>
using namespace vf;

static std::atomic<int> g_inflight{0}; static std::atomic<int> g_maxflight{0}; static std::atomic<int> g_go{0};

static unsigned g_opt = deps::OPT_ALL;
static std::vector<std::string> run_script(const std::vector<ops::Op>& seq, int yield_mode, uint64_t salt, std::string* err) {
    std::vector<std::string> T; ops::Machine m; m.fl.check_model = false; m.fl.check_ledger = true; m.fl.check_routing = false; m.fl.allow_inject = false; m.log = &T;
    m.start(false, false); m.mask = 7; m.opt = g_opt; m.rand_ctr = salt; deps::kit(0).yield_mode = yield_mode; deps::kit(0).foreign_ok = !(g_opt & deps::OPT_ALLOC); deps::kit(0).track = (g_opt & deps::OPT_ALLOC) && (g_opt & deps::OPT_FREE);
    std::string r = m.run(seq); if (!r.empty()) *err = r;
    return T;
}

// case: n(threads) yield scripts(hex of per-thread ops, ';' separated)
static std::string oracle(const Case& c) {
    Evidence& ev = W().ev; int n = (int)c.u("n", 2); int ym = (int)c.u("yield"); std::vector<std::vector<ops::Op>> scripts;
    { std::string all = c.get("scripts"); size_t p = 0; for (;;) { size_t e = all.find(';', p); scripts.push_back(ops::from_hex(all.substr(p, e == std::string::npos ? std::string::npos : e - p))); if (e == std::string::npos) break; p = e + 1; } }
    while ((int)scripts.size() < n) scripts.push_back(scripts[0]); scripts.resize((size_t)n);
    for (auto& sc : scripts) for (auto& o : sc) if (o.code == ops::INJECT || o.code == ops::ENABLE) o.code = ops::QUERY;  // configuration is fixed before the threads start
    // dependencies are injected once, before any thread starts; in some cases alloc/free are left NULL (libc defaults)
    g_opt = c.u("libc_alloc") ? deps::OPT_TIME : deps::OPT_ALL; deps::inject(0, g_opt); polyseed_enable_features(7);
    std::vector<std::vector<std::string>> conc((size_t)n), solo((size_t)n); std::vector<std::string> errs((size_t)n), errs2((size_t)n);
    g_go.store(0, std::memory_order_relaxed); g_maxflight.store(0, std::memory_order_relaxed); std::vector<std::thread> th;
    for (int i = 0; i < n; i++) th.emplace_back([&, i]() {
        while (!g_go.load(std::memory_order_acquire)) { }
        int f = g_inflight.fetch_add(1, std::memory_order_relaxed) + 1; int mx = g_maxflight.load(std::memory_order_relaxed); while (f > mx && !g_maxflight.compare_exchange_weak(mx, f, std::memory_order_relaxed)) { }
        conc[(size_t)i] = run_script(scripts[(size_t)i], ym, 1000 + (uint64_t)i, &errs[(size_t)i]);
        g_inflight.fetch_sub(1, std::memory_order_relaxed);
    });
    g_go.store(1, std::memory_order_release); for (auto& t : th) t.join();
    for (int i = 0; i < n; i++) if (!errs[(size_t)i].empty()) return "thread " + std::to_string(i) + ": " + errs[(size_t)i];
    for (int i = 0; i < n; i++) { solo[(size_t)i] = run_script(scripts[(size_t)i], 0, 1000 + (uint64_t)i, &errs2[(size_t)i]); if (!errs2[(size_t)i].empty()) return "serial re-run of thread " + std::to_string(i) + ": " + errs2[(size_t)i]; }
    for (int i = 0; i < n; i++) { if (conc[(size_t)i].size() != solo[(size_t)i].size()) return "thread " + std::to_string(i) + ": transcript length differs from the serial run";
        for (size_t j = 0; j < conc[(size_t)i].size(); j++) if (conc[(size_t)i][j] != solo[(size_t)i][j]) return "thread " + std::to_string(i) + " step " + std::to_string(j) + " observed [" + conc[(size_t)i][j].substr(0, 300) + "] but a serial execution gives [" + solo[(size_t)i][j].substr(0, 300) + "]"; }
    int mf = g_maxflight.load(std::memory_order_relaxed); size_t total = 0; for (auto& s : scripts) total += s.size();
    ev.eval(); ev.count("threads:" + std::to_string(n)); ev.count("ops-executed", total); ev.count("yield-mode:" + std::to_string(ym)); ev.count(c.u("libc_alloc") ? "allocator:libc-default" : "allocator:injected");
    if (mf >= 2) { ev.nt(c); ev.count("overlapping(>=2 threads in flight)"); ev.sample("n=" + std::to_string(n), c); } else ev.count("trivial(no overlap observed)");
    return "";
}

static void run() {
    Args& a = W().args; { Case c; c.set("phase", "setup"); set_current(c); }
    deps::inject(0); polyseed_enable_features(7); lib::Registry::get(); model::Golden::get();
    seqgen::Weights wt{{0, 0, 10, 8, 8, 8, 8, 10, 4, 4, 2, 5, 1, 1}};
    rc_run("c20-threads", a.n(25, 1500), 100, [&]() {
        int n = *rc::gen::element(2, 4, 8, 16, 4, 8); int ym = *rc::gen::element(0, 1, 1, 2, 5); std::string all;
        for (int i = 0; i < n; i++) { auto seq = *seqgen::sequence(wt, *rc::gen::element(10, 25, 50)); if (i) all += ";"; all += ops::to_hex(seq); }
        Case c; c.set("n", (uint64_t)n); c.set("yield", (uint64_t)ym); c.set("scripts", all); c.set("libc_alloc", *in_range<unsigned>(0, 2)); set_current(c);
        std::string m = oracle(c); if (!m.empty()) VF_FAIL(c, m);
    });
}
int main(int argc, char** argv) { return worker_main(argc, argv, "C20", Hooks{run, [](const Case& c) { deps::inject(0); polyseed_enable_features(7); lib::Registry::get(); model::Golden::get(); return oracle(c); }}); }
