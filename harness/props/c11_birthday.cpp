// C11 — wallet birthday: never later than creation, accurate to one month, stable under every transformation.
#include "gen.hpp"
#include "wrap.hpp"
using namespace vf;

static const lib::Registry* REG;
static void setup() { Case c; c.set("phase", "setup"); set_current(c); deps::inject(0); REG = &lib::Registry::get(); }

// case: t secret chain(hex bytes: ops) lang coin pw
static std::string oracle(const Case& c) {
    deps::Kit& k = deps::kit(0); k.reset_all(); Evidence& ev = W().ev;
    uint64_t t = c.u("t"); std::string sec = c.bytes("secret"); sec.resize(19, '\0');
    k.rand_bytes.assign(sec.begin(), sec.end()); k.clock = t; polyseed_enable_features(7);
    // optionally the clock answers t only on its first reading and a failure value afterwards (a transient time() error):
    // the birthday must still be the one of a delivered reading
    if (c.u("flaky")) { k.clock_seq = {t, c.u("flaky") == 1 ? UINT64_MAX : c.u("flaky") == 2 ? 0 : model::EPOCH - 1}; }
    bool dflt = false;
#ifdef VERIF_WRAP
    // the built-in default clock (time entry NULL): libc time() is interposed and answers t
    if (c.u("defaultclock")) { dflt = true; deps::inject(0, deps::OPT_ALLOC | deps::OPT_FREE); polyseed_enable_features(7); auto& w = deps::wrap(); w.enabled = true; w.window = true; w.fake = true; w.fake_time = t; w.time_calls = 0; w.foreign_calls = 0; w.env_fake = deps::env_value(c.u("env")); /* every environment variable the library might ask for holds this */ }
#endif
    lib::SeedPtr s; int st = polyseed_create((unsigned)c.u("ufeat") & 7u, s.out());
#ifdef VERIF_WRAP
    if (dflt) { auto& w = deps::wrap(); w.window = false; w.fake = false; w.env_fake = nullptr; uint64_t calls = w.time_calls; w.enabled = false; if (w.foreign_calls) ev.count("foreign-source-consulted");   /* judged by C18; here only its effect on the birthday counts */ deps::inject(0); polyseed_enable_features(7); if (st == 0 && calls < 1) return "no clock injected but create did not call libc time()"; if (st == 0) k.time_calls = 1; ev.count("default-clock(libc time interposed)"); }
#endif if (st != 0) { s.p = nullptr; return std::string("create returned ") + model::status_name(st); }
    if (k.time_calls < 1) return "create did not consult the injected clock";
    uint64_t B = polyseed_get_birthday(s);
    if (c.u("flaky")) { bool ok = false; for (uint64_t r : k.clock_given) if (B == model::birthday_time(model::birthday_index(r))) ok = true; k.clock_seq.clear(); if (!ok) return "the clock was read " + std::to_string(k.clock_given.size()) + " times (first reading " + std::to_string(t) + ", later readings a failure value) and the birthday " + std::to_string(B) + " is that of none of the readings"; if (k.clock_given.size() > 1) ev.count("clock-read-more-than-once"); if (B != model::birthday_time(model::birthday_index(t))) { ev.count("flaky-clock:other-reading-used"); s.reset(); ev.eval(); return ""; } }
    const uint64_t E = model::EPOCH, S = model::STEP, END = E + 1024 * S;
    if (B < E || (B - E) % S != 0 || (B - E) / S > 1023) return "birthday " + std::to_string(B) + " is not epoch + k*2629746 with k in 0..1023 (t=" + std::to_string(t) + ")";
    std::string cls;
    if (t == UINT64_MAX) { cls = "time-error-value"; if (B != E) return "(time_t)-1 must give the epoch, got " + std::to_string(B); }
    else if (t < E) { cls = "before-epoch"; if (B != E) return "t=" + std::to_string(t) + " before the epoch must give the epoch, got " + std::to_string(B); }
    else if (t < END) { cls = "in-range"; if (!(B <= t && t - B < S)) return "t=" + std::to_string(t) + ": birthday " + std::to_string(B) + " violates B <= t < B + 2629746"; }
    else { cls = "after-range"; if (B > t) return "birthday later than creation time"; }
    if (t >= E && t != UINT64_MAX && B > t) return "birthday " + std::to_string(B) + " is later than the creation time " + std::to_string(t);
    // the clock moves on (or back, or breaks) after creation: the reported birthday belongs to the seed, not to the time of the query
    if (c.has("later")) { k.clock = c.u("later"); ev.count(c.u("later") == UINT64_MAX ? "clock-later:error-value" : c.u("later") < E ? "clock-later:before-epoch" : c.u("later") < B ? "clock-later:in[epoch,B)" : c.u("later") <= t ? "clock-later:in[B,t]" : "clock-later:after-t");
        uint64_t B1 = polyseed_get_birthday(s); if (B1 != B) return "birthday reported as " + std::to_string(B) + " at creation is reported as " + std::to_string(B1) + " once the clock reads " + std::to_string(c.u("later")); }
    // chain of transformations
    std::string chain = c.bytes("chain"); const lib::LangEntry* le = REG->by_name(c.get("lang")); unsigned coin = (unsigned)c.u("coin") & 2047u;
    for (unsigned char op : chain) {
        switch (op % 4) {
        case 0: if (le) { std::string ph = lib::encode(s, le->lang, coin); lib::SeedPtr n; if (polyseed_decode_explicit(ph.c_str(), (polyseed_coin)coin, le->lang, n.out()) != 0) { n.p = nullptr; ev.count("discard:decode-failed"); return ""; } std::swap(s.p, n.p); ev.count("step:encode/decode"); } break;
        case 1: { lib::Image img = lib::store(s); lib::SeedPtr n; if (polyseed_load(img.data(), n.out()) != 0) { n.p = nullptr; ev.count("discard:load-failed"); return ""; } std::swap(s.p, n.p); ev.count("step:store/load"); } break;
        case 2: polyseed_crypt(s, "birthday-pw"); ev.count("step:crypt"); break;
        case 3: if (le) { std::string ph = lib::encode(s, le->lang, coin); const polyseed_lang* lo; lib::SeedPtr n; int sd = polyseed_decode(ph.c_str(), (polyseed_coin)coin, &lo, n.out()); if (sd != 0) { n.p = nullptr; break; } std::swap(s.p, n.p); ev.count("step:encode/decode-auto"); } break;
        }
        uint64_t B2 = polyseed_get_birthday(s);
        if (B2 != B) return "birthday changed from " + std::to_string(B) + " to " + std::to_string(B2) + " after step " + std::to_string(op % 4) + " (0 encode/decode, 1 store/load, 2 crypt, 3 auto decode)";
    }
    s.reset(); 
    ev.eval(); ev.count(cls); ev.nt(fnv1a(c.get("t") + "/" + c.get("chain") + "/" + c.get("lang"))); ev.sample(cls, c);
    return "";
}

static void run() {
    setup(); Args& a = W().args; Evidence& ev = W().ev;
    // exhaustive boundary set: both sides of each of the 1025 month boundaries, plus the special values
    std::vector<uint64_t> ts;
    for (uint64_t kk = 0; kk <= 1024; kk++) for (int d = -1; d <= 1; d++) ts.push_back(model::EPOCH + kk * model::STEP + (uint64_t)(int64_t)d);
    for (uint64_t v : std::initializer_list<uint64_t>{0ull, 1ull, model::EPOCH - 1, (1ull << 31) - 1, 1ull << 31, (1ull << 31) + 1, (1ull << 32) - 1, 1ull << 32, (1ull << 32) + 1, 1ull << 63, (1ull << 63) - 1, UINT64_MAX - 1, UINT64_MAX, model::EPOCH + 1024 * model::STEP + 12345, model::EPOCH + (1ull << 32), model::EPOCH + (1ull << 32) + model::STEP * 3 + 1, model::EPOCH + 1023 * model::STEP + model::STEP - 1}) ts.push_back(v);
    uint64_t done = 0;
    for (size_t i = 0; i < ts.size(); i++) {
        if ((int)(i % (size_t)a.nworkers) != a.worker) continue;
        Case c; c.set("t", ts[i]); c.set("secret", hex(std::string(19, (char)(i * 7)))); c.set("chain", hex(std::string("\x00\x01\x02\x01\x00\x02", 6))); c.set("lang", REG->at(i).name_en); c.set("coin", (uint64_t)(i % 2048)); c.set("defaultclock", (uint64_t)(W().args.variant == "rel" ? 1 : 0)); c.set("env", (uint64_t)(i % 8));
        { const uint64_t E = model::EPOCH, S = model::STEP; uint64_t lt[6] = {E, ts[i] >= E + S ? ts[i] - S : E, 0, UINT64_MAX, E - 1, ts[i] + S}; if (i % 7) c.set("later", lt[i % 7 - 1]); }
        set_current(c); std::string m = oracle(c); done++; if (!m.empty() && enum_fail(c, m)) return;
    }
    ev.enumerated["clock values at every month boundary -1/0/+1 and special values"] += done;
    rc_run("c11-random", a.n(40000, 600000), 100, [&]() {
        uint64_t t = *rc::gen::weightedOneOf<uint64_t>({{4, rc::gen::map(vf::u64(), [](uint64_t x) -> uint64_t { return model::EPOCH + x % (1024 * model::STEP); })}, {2, vf::u64()},
            {2, rc::gen::map(rc::gen::pair(in_range<uint64_t>(0, 1026), in_range<int>(-2, 3)), [](std::pair<uint64_t, int> p) -> uint64_t { return model::EPOCH + p.first * model::STEP + (uint64_t)(int64_t)p.second; })},
            {1, rc::gen::map(vf::u64(), [](uint64_t x) -> uint64_t { return x % model::EPOCH; })}, {1, rc::gen::map(vf::u64(), [](uint64_t x) -> uint64_t { return model::EPOCH + 1024 * model::STEP + x % (1ull << 40); })}, {1, rc::gen::element<uint64_t>(UINT64_MAX, UINT64_MAX - 1, 0, model::EPOCH, model::EPOCH - 1)}});
        Case c; c.set("t", t); c.set("secret", hex(*g::secret19())); c.set("ufeat", *in_range<unsigned>(0, 8)); c.set("chain", hex(*rc::gen::resize(10, rc::gen::container<std::vector<uint8_t>>(rc::gen::resize(100, rc::gen::inRange<uint8_t>(0, 4)))))); c.set("lang", REG->at(*g::lang_index()).name_en); c.set("coin", (uint64_t)*g::coin()); if (*in_range<int>(0, 8) == 0) c.set("flaky", *in_range<unsigned>(1, 4)); else if (W().args.variant == "rel" && *in_range<int>(0, 2)) c.set("defaultclock", 1);
        if (*in_range<int>(0, 3)) { uint64_t x = *vf::u64(); int kind = *in_range<int>(0, 6); c.set("later", kind == 0 ? (t >= model::EPOCH && t != UINT64_MAX ? model::EPOCH + x % (t - model::EPOCH + 1) : model::EPOCH) : kind == 1 ? x : kind == 2 ? model::EPOCH - 1 - x % 1000 : kind == 3 ? UINT64_MAX : kind == 4 ? model::EPOCH + x % (1024 * model::STEP) : (uint64_t)0); }
        c.set("env", *in_range<unsigned>(0, 8)); set_current(c); std::string m = oracle(c); if (!m.empty()) VF_FAIL(c, m);
    });
}
int main(int argc, char** argv) { return worker_main(argc, argv, "C11", Hooks{run, [](const Case& c) { setup(); return oracle(c); }}); }
