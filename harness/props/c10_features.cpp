// C10 — reserved feature bits are refused at every entry point; enabled ones work (feature-admission model).
#include "gen.hpp"
#include "wrap.hpp"
#include <thread>
using namespace vf;

static const lib::Registry* REG;
static void setup() { Case c; c.set("phase", "setup"); set_current(c); deps::inject(0); REG = &lib::Registry::get(); model::require_self_check(); }
static int popcount3(unsigned a) { return (a & 1) + ((a >> 1) & 1) + ((a >> 2) & 1); }

// case: calls(hex of 4-byte LE arguments to enable_features; empty = default state is only valid right after start, so at least one call is always made)
//       f (0..31) hi(0/1: OR 0xFFFFFFE0 into the create argument) secret birthday coin lang badcheck(0/1)
static bool g_enable_called = false;
static std::string oracle_inner(const Case& c);
// In the --wrap build the process environment is part of the input: every variable the library might ask for holds a generated value, and asking is itself noted.
static std::string oracle(const Case& c) {
#ifdef VERIF_WRAP
    auto& w = deps::wrap(); w.enabled = true; w.api = true; w.foreign_calls = 0; w.env_fake = deps::env_value(c.u("env"));
    std::string m = oracle_inner(c);
    w.api = false; w.env_fake = nullptr; w.enabled = false;
    if (w.foreign_calls) W().ev.count("foreign-source-consulted");
    return m;
#else
    return oracle_inner(c);
#endif
}
static std::string oracle_inner(const Case& c) {
    deps::Kit& k = deps::kit(0); k.reset_all(); Evidence& ev = W().ev;
    if (c.get("kind") == "default") { // state before any enabling call: no user feature is enabled
        if (g_enable_called) return "";
        for (unsigned f = 0; f < 8; f++) { polyseed_data* s = nullptr; int st = polyseed_create(f, &s); if (st == 0) polyseed_free(s); if (f == 0 ? st != 0 : st != model::UNSUPPORTED) return "by default (no enabling call yet) create(" + std::to_string(f) + ") returned " + model::status_name(st); }
        model::Seed ms; ms.features = 1; auto img = model::image(ms); polyseed_data* s = nullptr; int st = polyseed_load(img.data(), &s); if (st == 0) polyseed_free(s);
        if (st != model::UNSUPPORTED) return std::string("by default load of a seed with user feature 1 returned ") + model::status_name(st);
        ms.features = 16; img = model::image(ms); st = polyseed_load(img.data(), &s); if (st != 0) return std::string("by default load of an encrypted seed returned ") + model::status_name(st); polyseed_free(s);
        ev.eval(); ev.count("default-state"); return "";
    }
    g_enable_called = true;
    polyseed_enable_features(7);   // known, non-default baseline: the case must not depend on what an earlier case left behind (and a call that fails to reset shows)
    // optional burst: a probe, then so many enabling calls that - together with the case's own calls - exactly `burst` calls lie
    // between that probe and the probes below (counters kept by an implementation wrap at powers of two)
    if (c.u("burst")) { unsigned old = (unsigned)c.u("burstmask") & 7u; polyseed_enable_features(old); { polyseed_data* t = nullptr; k.rand_bytes.assign(19, 1); if (polyseed_create(old, &t) == 0) polyseed_free(t); }
        uint64_t own = c.bytes("calls").size() / 4; if (own == 0) own = 1; for (uint64_t i = own; i < c.u("burst"); i++) polyseed_enable_features((unsigned)(i * 5 + old) & 7u); ev.count("burst-of-enabling-calls"); }
    std::string calls = c.bytes("calls"); unsigned m = 0; bool any = false;
    for (size_t i = 0; i + 4 <= calls.size(); i += 4) {
        unsigned arg = (uint8_t)calls[i] | ((uint8_t)calls[i + 1] << 8) | ((uint8_t)calls[i + 2] << 16) | ((unsigned)(uint8_t)calls[i + 3] << 24);
        int r; bool last = i + 8 > calls.size();
        if (last && c.u("otherthread")) { std::thread th([&]() { r = polyseed_enable_features(arg); }); th.join(); ev.count("enabling-call-from-another-thread"); }   /* the mask is process-wide: a call made (and completed) on another thread counts like any other */
        else r = polyseed_enable_features(arg);
        any = true;
        if (r != popcount3(arg)) return "enable_features(" + std::to_string(arg) + ") returned " + std::to_string(r) + ", must be the number of user bits set (" + std::to_string(popcount3(arg)) + ")";
        m = arg & 7u; // the most recent call wins
    }
    if (!any) { polyseed_enable_features(0); m = 0; }
    if (c.u("reinject")) { deps::inject(0); ev.count("re-injection-between-enabling-and-use"); }   // the enabled mask is library state of its own: injecting dependencies again must not touch it
    unsigned f = (unsigned)c.u("f") & 31u; bool ok = model::features_supported(f, m);
    std::string sec = c.bytes("secret"); sec.resize(19, '\0'); std::vector<uint8_t> sv(sec.begin(), sec.end());
    model::Seed ms = g::to_seed(sv, (int)(c.u("birthday") & 1023u), f);
    unsigned coin = (unsigned)c.u("coin") & 2047u; const lib::LangEntry* le = REG->by_name(c.get("lang"));
    auto after_fail = [&](const char*) -> std::string { for (auto& b : k.live) free(b.first); k.live.clear(); return ""; };   // leaks on the refusal path are C15's business, not C10's
    auto check_seed = [&](polyseed_data* s, unsigned feat, const char* what) -> std::string {
        for (unsigned q = 0; q < 32; q++) { unsigned r = polyseed_get_feature(s, q); if (r != (feat & q & 7u)) return std::string(what) + ": get_feature(seed with features " + std::to_string(feat) + ", mask " + std::to_string(q) + ") = " + std::to_string(r); }
        if (polyseed_get_feature(s, 0xFFFFFFF8u | 5u) != (feat & 5u)) return std::string(what) + ": get_feature with high mask bits set leaks non-user bits";
        if (polyseed_is_encrypted(s) != (int)((feat >> 4) & 1u)) return std::string(what) + ": is_encrypted wrong for features " + std::to_string(feat);
        lib::Image img = lib::store(s); unsigned v = img[8] | (img[9] << 8); if ((v >> 10) != feat) return std::string(what) + ": stored feature bits are " + std::to_string(v >> 10) + ", expected " + std::to_string(feat);
        return "";
    };
    std::string msg;
    // --- entry point 1: create
    {
        unsigned arg = f | (c.u("hi") ? 0xFFFFFFE0u : 0u); k.rand_bytes.assign(sv.begin(), sv.end()); k.rand_pos = 0; k.clock = c.u("late") ? model::EPOCH + (1024 + c.u("late")) * model::STEP + 5 : model::birthday_time(ms.birthday);   // "late": a clock beyond the 1024-month range must not disturb the feature bits either
        polyseed_data* s = nullptr; int st = polyseed_create(arg, &s); bool cok = ((f & 7u) & ~m) == 0;
        if (cok) { if (st != 0) return "create(" + std::to_string(arg) + ") under mask " + std::to_string(m) + " returned " + model::status_name(st); msg = check_seed(s, f & 7u, "create"); 
            if (msg.empty()) { // crypt flips only bit 4; features survive phrase / storage round trips
                polyseed_crypt(s, "pw"); msg = check_seed(s, (f & 7u) | 16u, "create+crypt");
                if (msg.empty() && le) { std::string ph = lib::encode(s, le->lang, coin); polyseed_data* d = nullptr; int sd = polyseed_decode_explicit(ph.c_str(), (polyseed_coin)coin, le->lang, &d); if (sd == 0) { msg = check_seed(d, (f & 7u) | 16u, "encode/decode of encrypted seed"); polyseed_free(d); } else if (sd == model::UNSUPPORTED) msg = "decode refuses a seed this configuration just created and encrypted"; }
                if (msg.empty()) { lib::Image img = lib::store(s); polyseed_data* d = nullptr; int sl = polyseed_load(img.data(), &d); if (sl == 0) { msg = check_seed(d, (f & 7u) | 16u, "store/load of encrypted seed"); polyseed_free(d); } else if (sl == model::UNSUPPORTED) msg = "load refuses a seed this configuration just created and encrypted"; }
                if (msg.empty()) { polyseed_crypt(s, "pw"); msg = check_seed(s, f & 7u, "create+crypt+crypt"); }
            }
            polyseed_free(s); if (!msg.empty()) return msg; ev.count("create:accepted");
        } else { if (st != model::UNSUPPORTED) { if (st == 0) polyseed_free(s); return "create(" + std::to_string(arg) + ") under mask " + std::to_string(m) + " returned " + model::status_name(st) + ", must be UNSUPPORTED"; } msg = after_fail("create"); if (!msg.empty()) return msg; ev.count("create:refused"); }
    }
    // --- entry point 2: load of the model image
    {
        auto img = model::image(ms); polyseed_data* s = nullptr; int st = polyseed_load(img.data(), &s);
        if (ok) { if (st != 0) return "load of a seed with features " + std::to_string(f) + " under mask " + std::to_string(m) + " returned " + model::status_name(st); msg = check_seed(s, f, "load"); polyseed_free(s); if (!msg.empty()) return msg; ev.count("load:accepted"); }
        else { if (st != model::UNSUPPORTED) { if (st == 0) polyseed_free(s); return "load of a seed with features " + std::to_string(f) + " under mask " + std::to_string(m) + " returned " + model::status_name(st) + ", must be UNSUPPORTED"; } msg = after_fail("load"); if (!msg.empty()) return msg; ev.count("load:refused"); }
        if (c.u("badcheck")) { auto b = img; b[30] ^= 1; st = polyseed_load(b.data(), &s); if (st != model::CHECKSUM) { if (st == 0) polyseed_free(s); return std::string("load with a wrong check value returned ") + model::status_name(st) + " (checksum must be reported before unsupported features)"; } }
    }
    // --- entry points 3, 4: both decoders on the specification's phrase
    if (le && le->golden) {
        std::string ph = model::phrase(*le->golden, ms, coin);
        for (int which = 0; which < 2; which++) {
            polyseed_data* s = nullptr; const polyseed_lang* lo = nullptr;
            int st = which == 0 ? (int)polyseed_decode_explicit(ph.c_str(), (polyseed_coin)coin, le->lang, &s) : (int)polyseed_decode(ph.c_str(), (polyseed_coin)coin, &lo, &s);
            const char* nm = which == 0 ? "decode_explicit" : "decode";
            if (which == 1 && st == model::MULT_LANG) { ev.count("decode:ambiguous"); continue; }
            if (ok) { if (st != 0) return std::string(nm) + " of a phrase with features " + std::to_string(f) + " under mask " + std::to_string(m) + " returned " + model::status_name(st) + " lang=" + le->name_en; msg = check_seed(s, f, nm); polyseed_free(s); if (!msg.empty()) return msg; ev.count(std::string(nm) + ":accepted"); }
            else { if (st != model::UNSUPPORTED) { if (st == 0) polyseed_free(s); return std::string(nm) + " of a phrase with features " + std::to_string(f) + " under mask " + std::to_string(m) + " returned " + model::status_name(st) + ", must be UNSUPPORTED (lang=" + le->name_en + ")"; } msg = after_fail(nm); if (!msg.empty()) return msg; ev.count(std::string(nm) + ":refused"); }
        }
        if (c.u("badcheck")) { auto co = model::pack(ms); co[1] ^= coin; co[0] ^= 1u; std::string bad = model::phrase_from_coeffs(*le->golden, co); int st = lib::decode_x(bad, coin, le->lang); if (st != model::CHECKSUM) return std::string("decode_explicit with a wrong check word returned ") + model::status_name(st) + " (checksum precedes unsupported)"; }
    }
    
    ev.eval(); ev.count(ok ? "admitted" : "refused"); if (f & 8u) ev.count("reserved-kdf-bit"); if (calls.size() > 4) ev.count("history>1"); ev.nt(c); ev.sample(ok ? "admitted" : "refused", c);
    return "";
}

static std::string le32s(unsigned v) { std::string s(4, '\0'); s[0] = (char)v; s[1] = (char)(v >> 8); s[2] = (char)(v >> 16); s[3] = (char)(v >> 24); return s; }

static void run() {
    setup(); Args& a = W().args; Evidence& ev = W().ev;
    std::vector<unsigned> argsv; for (unsigned i = 0; i < 8; i++) argsv.push_back(i);
    for (unsigned v : {8u, 16u, 24u}) argsv.push_back(v);
    for (unsigned kx = 0; kx < 8; kx++) { argsv.push_back(0xF8u | kx); argsv.push_back(0xFFFFFFF8u | kx); }
    { Case c; c.set("kind", "default"); c.set("env", 1); set_current(c); std::string m = oracle(c); if (!m.empty() && enum_fail(c, m)) return; }
    uint64_t idx = 0, done = 0;
    for (unsigned arg : argsv) for (unsigned f = 0; f < 32; f++) for (int hi = 0; hi < 2; hi++) for (int l = 0; l < 2; l++) {
        if ((int)(idx++ % (uint64_t)a.nworkers) != a.worker) continue;
        Case c; c.set("calls", hex(le32s(arg))); c.set("f", f); c.set("hi", (uint64_t)hi); c.set("secret", hex(std::string(19, (char)(0x11 * (f % 15) + arg)))); c.set("birthday", (f * 33 + arg) % 1024); c.set("coin", (f * 67 + arg * 3) % 2048);
        c.set("lang", REG->at((a.seed + f + arg + (unsigned)l * 5) % REG->size()).name_en); c.set("badcheck", 1); c.set("env", (uint64_t)((f + arg + hi) % 8));
        set_current(c); std::string m = oracle(c); done++; if (!m.empty() && enum_fail(c, m)) return;
    }
    ev.enumerated["enable argument (27 values) x feature value (32) x create-argument high bits (2) x 2 languages, four entry points each"] += done;
    { static const uint64_t bursts[] = {255, 256, 257, 65535, 65536, 65537, 131072, 1u << 20}; uint64_t bi = 0;
      for (uint64_t b : bursts) for (unsigned oldm = 1; oldm < 8; oldm += 3) for (unsigned f = 0; f < 8; f += 1) { if ((int)(bi++ % (uint64_t)a.nworkers) != a.worker) continue;
        Case c; c.set("calls", hex(le32s(oldm ^ 7u))); c.set("f", f); c.set("hi", 0); c.set("secret", hex(std::string(19, (char)(0x31 + f)))); c.set("birthday", (f * 77 + b) % 1024); c.set("coin", (f * 91) % 2048); c.set("lang", REG->at(f).name_en); c.set("badcheck", 0); c.set("burst", b); c.set("burstmask", oldm);
        set_current(c); std::string m = oracle(c); if (!m.empty() && enum_fail(c, m)) return; } }
    rc_run("c10-histories", a.n(40000, 300000), 100, [&]() {
        int n = *in_range<int>(1, 7); std::string calls;
        for (int i = 0; i < n; i++) calls += le32s(*rc::gen::weightedOneOf<unsigned>({{5, in_range<unsigned>(0, 8)}, {1, rc::gen::map(vf::u64(), [](uint64_t x) { return (unsigned)x; })}, {1, rc::gen::map(in_range<unsigned>(0, 8), [](unsigned x) { return x | 0xFFFFFFF8u; })}}));
        Case c; c.set("calls", hex(calls)); c.set("f", *in_range<unsigned>(0, 32)); c.set("hi", *in_range<unsigned>(0, 2)); c.set("secret", hex(*g::secret19())); c.set("birthday", (uint64_t)*g::birthday()); c.set("coin", (uint64_t)*g::coin());
        c.set("lang", REG->at(*g::lang_index()).name_en); c.set("badcheck", *in_range<unsigned>(0, 2)); if (*in_range<int>(0, 32) == 0) c.set("reinject", 1); if (*in_range<int>(0, 8) == 0) c.set("late", *in_range<unsigned>(0, 3000)); if (*in_range<int>(0, 16) == 0) c.set("otherthread", 1); c.set("env", *in_range<unsigned>(0, 8));
        set_current(c); std::string m = oracle(c); if (!m.empty()) VF_FAIL(c, m);
    });
}
int main(int argc, char** argv) { return worker_main(argc, argv, "C10", Hooks{run, [](const Case& c) { setup(); return oracle(c); }}); }
