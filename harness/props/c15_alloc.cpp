// C15 — no leak, double free or foreign free; allocation failure is reported cleanly (fault enumeration:
// operation sequences x failure schedules, allocator-ledger invariant after every call).
#include "seqgen.hpp"
using namespace vf;

static const char* CELLS[] = {"create/OK", "create/UNSUPPORTED", "load/OK", "load/FORMAT", "load/CHECKSUM", "load/UNSUPPORTED", "decode/OK", "decode/NUM_WORDS", "decode/LANG", "decode/MULT_LANG", "decode/CHECKSUM", "decode/UNSUPPORTED",
                              "decode_explicit/OK", "decode_explicit/NUM_WORDS", "decode_explicit/LANG", "decode_explicit/CHECKSUM", "decode_explicit/UNSUPPORTED"};

static std::string oracle(const Case& c) {
    Evidence& ev = W().ev; std::vector<ops::Op> seq = ops::from_hex(c.get("ops"));
    ops::Machine m; m.fl.check_model = false; m.fl.check_routing = false; m.fl.check_ledger = true; m.fl.allow_inject = c.u("inject", 0) != 0;
    m.start(m.fl.allow_inject);
    std::vector<std::string> t1, t2; m.log = &t1;
    std::string r = m.run(seq); if (!r.empty()) return r + "   sequence: " + ops::describe(seq);
    // freshly allocated memory is never assumed to be zero: the same sequence with zero-filled fresh blocks must give the same transcript
    // (statuses, store image of every live seed after every step, KDF arguments of keygen/crypt)
    { ops::Machine z; z.fl = m.fl; z.garbage_override = 0x00; z.log = &t2; z.start(z.fl.allow_inject); std::string r2 = z.run(seq); if (!r2.empty()) return r2 + " (zero-filled allocator)   sequence: " + ops::describe(seq);
      for (size_t i = 0; i < t1.size() && i < t2.size(); i++) if (t1[i] != t2[i]) return "results depend on the content of freshly allocated memory: step " + std::to_string(i + 1) + " gives [" + t1[i].substr(0, 300) + "] with garbage-filled blocks and [" + t2[i].substr(0, 300) + "] with zero-filled blocks   sequence: " + ops::describe(seq); }
    ev.eval(); ev.count("ops-executed", seq.size()); bool nt = m.saw_alloc_fail;
    for (auto& p : m.cls) { if (p.first.rfind("cell:", 0) == 0) { ev.count(p.first, p.second); if (p.first.find("UNSUPPORTED") != std::string::npos || p.first.find("FORMAT") != std::string::npos || p.first.find("CHECKSUM") != std::string::npos) nt = true; } else if (p.first.find("MEMORY") != std::string::npos) ev.count(p.first, p.second); }
    if (m.saw_alloc_fail) ev.count("seq:allocation-failure-observed");
    if (nt) { ev.nt(c); { Case sc = c; sc.set("described", ops::describe(seq).substr(0, 600)); ev.sample(c.get("gen", "seq"), sc); } } else ev.count("trivial");
    return "";
}

static void run() {
    Args& a = W().args; { Case c; c.set("phase", "setup"); set_current(c); deps::inject(0); }
    bool inject_ok = a.variant != "asan";
    // (1) cell enumeration: every (entry point x outcome) with and without an armed failure, built from short fixed scripts
    {
        using namespace ops; uint64_t done = 0, idx = 0;
        // prefix establishing a source seed with user feature 1 in slot 0 under mask 1; `lower` drops the mask so it becomes unsupported
        for (int armed = 0; armed < 2; armed++) for (int failpos = 1; failpos <= (armed ? 3 : 1); failpos++) for (int variant = 0; variant < 40; variant++) {
            std::vector<std::vector<Op>> scripts;
            Op arm{ARM_FAIL, (uint8_t)(1u << (failpos - 1)), 0, 0}; uint8_t L = (uint8_t)variant, cc = (uint8_t)(variant * 8);
            auto with = [&](std::vector<Op> pre, Op target) { if (armed) pre.push_back(arm); pre.push_back(target); pre.push_back(Op{KEYGEN, 1, 3, 0}); pre.push_back(Op{FREE_NULL, 0, 0, 0}); pre.push_back(Op{CREATE, 0, 3, 1}); pre.push_back(Op{ENCODE, 3, L, 1}); scripts.push_back(pre); };
            std::vector<Op> src = {Op{ENABLE, 1, 0, 0}, Op{CREATE, 1, 0, (uint8_t)variant}};
            std::vector<Op> low = src; low.push_back(Op{ENABLE, 0, 0, 0});
            with({Op{ENABLE, 1, 0, 0}}, Op{CREATE, 1, 1, 0}); with({Op{ENABLE, 0, 0, 0}}, Op{CREATE, 1, 1, 0});
            for (uint8_t k = 0; k < 5; k++) with(src, Op{LOAD, 0, 1, k}); with(low, Op{LOAD, 0, 1, 0});
            for (uint8_t code : {(uint8_t)DECODE, (uint8_t)DECODE_X}) { for (uint8_t k = 0; k < 8; k++) with(src, Op{code, 4, L, (uint8_t)(cc + k)}); with(low, Op{code, 4, L, cc}); with({}, Op{code, 0, L, 2}); with({}, Op{code, 0, L, 0}); }
            for (auto& sc : scripts) { if ((int)(idx++ % (uint64_t)a.nworkers) != a.worker) continue; Case c; c.set("ops", to_hex(sc)); c.set("inject", 0); c.set("gen", "cell-script"); set_current(c); std::string m = oracle(c); done++; if (!m.empty() && enum_fail(c, m)) return; }
        }
        W().ev.enumerated["cell scripts: entry point x outcome x {no failure, 1st/2nd/3rd request fails} x 40 language/coin variants"] += done;
    }
    // (2) random sequences with frequent failure schedules
    seqgen::Weights wt{{inject_ok ? 3 : 0, 3, 10, 10, 10, 10, 4, 3, 1, 5, 1, 6, 2, 10}};
    rc_run("c15-sequences", a.n(60000, 600000), 100, [&]() {
        auto seq = *seqgen::sequence(wt, *rc::gen::element(6, 15, 40));
        Case c; c.set("ops", ops::to_hex(seq)); c.set("inject", inject_ok ? 1 : 0); c.set("gen", "random-walk"); set_current(c);
        std::string m = oracle(c); if (!m.empty()) VF_FAIL(c, m);
    });
    (void)CELLS;
}
int main(int argc, char** argv) { return worker_main(argc, argv, "C15", Hooks{run, [](const Case& c) { deps::inject(0); return oracle(c); }}); }
