// C02 — every single-word substitution and every swap of two unequal words gives CHECKSUM;
// exactly one check word validates.  Words, phrases and seeds come from the library itself.
#include "gen.hpp"
using namespace vf;

static const lib::Registry* REG;
static void setup() { Case c; c.set("phase", "setup"); set_current(c); deps::inject(0); REG = &lib::Registry::get(); }

static bool is_zh(const std::string& n) { return n.rfind("Chinese", 0) == 0; }

// case: kind=phrase  secret birthday ufeat enc coin lang full(0/1) sub_stride
//       kind=core    lang e p
//       kind=one     lang coin tokens(hex of joined phrase) pos repl(hex)     (single mutated phrase; produced by shrinking a failure)
static std::string check_one(const lib::LangEntry& le, const std::vector<std::string>& toks, unsigned coin, const std::string& what) {
    std::string ph = lib::join(toks); int st = lib::decode_x(ph, coin, le.lang);
    if (st != model::CHECKSUM) return what + ": decode_explicit returned " + model::status_name(st) + " instead of CHECKSUM for '" + ph + "' coin " + std::to_string(coin);
    int sa = lib::decode_auto(ph, coin);
    if (sa == model::OK) return what + ": decode (auto) returned OK for '" + ph + "'";
    return "";
}

static std::string oracle(const Case& c) {
    deps::Kit& k = deps::kit(0); k.reset_all(); Evidence& ev = W().ev;
    const lib::LangEntry* le = REG->by_name(c.get("lang")); if (!le) return "";
    std::string kind = c.get("kind", "phrase");
    polyseed_enable_features(7);
    const lib::LibWords& lw = lib::lib_words(*le);
    if (!lw.ok) { ev.count("discard:libwords-inconsistent"); ev.note("LibWords(" + le->name_en + ") unusable: " + lw.why); return ""; }

    if (kind == "core") {
        // arithmetic core: data coefficient e at position p (1..15), all others zero.  The specification's
        // check value is e * 2^p in GF(2^11) mod x^11+x^2+1; p = 0: a lone check word e is valid iff e = 0.
        unsigned e = (unsigned)c.u("e") & 2047u; int p = (int)c.u("p") & 15;
        std::vector<std::string> t(16, lw.w[0]);
        ev.eval(); ev.nt(c); ev.count("core");
        if (p == 0) {
            t[0] = lw.w[e]; int st = lib::decode_x(lib::join(t), 0, le->lang);
            if (e == 0 ? st != model::OK : st != model::CHECKSUM) return "core: lone check word " + std::to_string(e) + " over zero data gives " + model::status_name(st);
            return "";
        }
        unsigned chk = model::gf_mulx(e, p);
        t[p] = lw.w[e]; t[0] = lw.w[chk];
        int st = lib::decode_x(lib::join(t), 0, le->lang);
        bool unsupported_expected = (p == 2 && (e & 1u)); // reserved feature bit rides in word 3
        if (st == model::CHECKSUM || st == model::LANG || st == model::NUM_WORDS) return "core: coefficient " + std::to_string(e) + " at word " + std::to_string(p + 1) + " with check word index e*2^p=" + std::to_string(chk) + " is rejected with " + model::status_name(st);
        if (unsupported_expected ? st != model::UNSUPPORTED : st != model::OK) return "core: unexpected status " + std::string(model::status_name(st));
        if (e != 0) {
            // two other check words (neighbour and a rotating one) must fail
            unsigned alt[2] = {chk ^ 1u, (chk + 1 + (e * 31u + (unsigned)p) % 2047u) % 2048u};
            for (unsigned a : alt) { if (a == chk) continue; t[0] = lw.w[a]; int s2 = lib::decode_x(lib::join(t), 0, le->lang); if (s2 != model::CHECKSUM) return "core: wrong check word index " + std::to_string(a) + " accepted (" + model::status_name(s2) + ") for coefficient " + std::to_string(e) + " at word " + std::to_string(p + 1); }
        }
        return "";
    }

    std::vector<std::string> toks; unsigned coin = (unsigned)c.u("coin") & 2047u;
    lib::SeedPtr s;
    if (kind == "one") {
        toks = lib::tokens(c.bytes("tokens"));
    } else {
        std::string sec = c.bytes("secret"); sec.resize(19, '\0'); std::vector<uint8_t> sv(sec.begin(), sec.end());
        model::Seed want = g::to_seed(sv, (int)(c.u("birthday") & 1023u), ((unsigned)c.u("ufeat") & 7u) | (((unsigned)c.u("enc") & 1u) << 4));
        std::string err; s.p = g::build_by_create(want, 7, 0, &err); if (!s.p) return "cannot create seed: " + err;
        toks = lib::tokens(lib::encode(s, le->lang, coin));
    }
    if (toks.size() != 16) return "library phrase does not have 16 tokens";
    { int st = lib::decode_x(lib::join(toks), coin, le->lang); if (st != model::OK) { if (kind == "one") return ""; return std::string("unmodified phrase decodes to ") + model::status_name(st); } }
    if (kind == "one") {
        int pos = (int)c.u("pos") & 15; std::vector<std::string> t = toks; t[pos] = c.bytes("repl");
        if (t[pos] == toks[pos]) return "";
        ev.eval(); return check_one(*le, t, coin, "substitution at word " + std::to_string(pos + 1));
    }
    bool full = c.u("full") != 0; unsigned stride = full ? 1 : (unsigned)c.u("stride", 32); unsigned off = (unsigned)c.u("offset") % stride;
    uint64_t nsub = 0, nswap = 0, nchk = 0;
    // (a) substitutions
    for (int pos = 0; pos < 16; pos++) {
        for (unsigned j = (off + (unsigned)pos) % stride; j < 2048; j += stride) {
            if (lw.w[j] == toks[pos]) continue;
            std::vector<std::string> t = toks; t[pos] = lw.w[j]; nsub++;
            std::string m = check_one(*le, t, coin, "substitution at word " + std::to_string(pos + 1) + " by '" + lw.w[j] + "'");
            if (!m.empty()) return m;
        }
    }
    // (b) transpositions of unequal words
    for (int i = 0; i < 16; i++) for (int j = i + 1; j < 16; j++) {
        if (toks[i] == toks[j]) continue; std::vector<std::string> t = toks; std::swap(t[i], t[j]); nswap++;
        std::string m = check_one(*le, t, coin, "swap of words " + std::to_string(i + 1) + " and " + std::to_string(j + 1)); if (!m.empty()) return m;
    }
    // (c) exactly one check word validates (all 2048 candidates)
    if (full || !is_zh(le->name_en)) {
        int accepted = 0; std::string acc;
        for (unsigned j = 0; j < 2048; j++) { std::vector<std::string> t = toks; t[0] = lw.w[j]; int st = lib::decode_x(lib::join(t), coin, le->lang); nchk++; if (st != model::CHECKSUM) { accepted++; acc = lw.w[j]; if (st != model::OK && st != model::UNSUPPORTED) return std::string("check-word candidate gives ") + model::status_name(st); } }
        if (accepted != 1) return std::to_string(accepted) + " check words validate for the same 15 data words (must be exactly 1)";
        if (acc != toks[0]) return "the validating check word is not the phrase's own first word";
    }
    // (d) stored image with every other check value
    {
        lib::Image img = lib::store(s); unsigned f = img[30] | (img[31] << 8); int notchk = 0;
        for (unsigned v = 0; v < 2048; v++) {
            if (v == (f & 0x7FFu)) continue; lib::Image b = img; unsigned nf = (f & ~0x7FFu) | v; b[30] = (uint8_t)nf; b[31] = (uint8_t)(nf >> 8);
            polyseed_data* o = nullptr; int st = polyseed_load(b.data(), &o);
            if (st == 0) { polyseed_free(o); return "load accepts a stored seed whose check value was altered to " + std::to_string(v); }
            if (st != model::CHECKSUM) notchk++;
        }
        if (notchk) ev.count("discard:altered-image-not-CHECKSUM", (uint64_t)notchk); else ev.count("images-with-altered-check-value", 2047);
    }
    s.reset(); 
    
    ev.eval(nsub + nswap + nchk + 2047); ev.count("phrases"); ev.count("lang:" + le->name_en); ev.count("substitutions", nsub); ev.count("swaps", nswap); ev.count("checkword-candidates", nchk);
    // each mutated phrase is a distinct non-trivial case; fingerprint = (phrase, kind, position, replacement)
    uint64_t base = fnv1a(c.str());
    for (uint64_t i = 0; i < nsub + nswap + nchk; i++) ev.fps.insert(mix64(base + i));
    ev.nontrivial += nsub + nswap + nchk;
    ev.sample("phrase:" + le->name_en, c);
    return "";
}

static void run() {
    setup(); Args& a = W().args;
    // arithmetic core, exhaustive over (e, p), sharded; English preferred (any sorted language works)
    {
        const lib::LangEntry* le = REG->by_name("English"); if (!le) le = &REG->at(0);
        uint64_t n = 0;
        for (unsigned e = 0; e < 2048; e++) for (int p = 0; p < 16; p++) {
            if ((int)((e * 16 + p) % a.nworkers) != a.worker) continue;
            Case c; c.set("kind", "core"); c.set("lang", le->name_en); c.set("e", e); c.set("p", (uint64_t)p); set_current(c);
            std::string m = oracle(c); n++; if (!m.empty() && enum_fail(c, m)) return;
        }
        W().ev.enumerated["gf-core (element e x position p) [this worker's shard]"] += n;
    }
    // phrases: quick = stride-sampled substitutions in the sorted languages (all 2047 per position in thorough), Chinese sampled
    rc_run("c02-phrases", a.n(40, 700), 100, [&]() {
        auto sc = *g::seed_coin(); auto sec = sc.sec; int bd = sc.bd; unsigned uf = sc.feat & 7u, enc = (sc.feat >> 4) & 1u; int coin = sc.coin; int li = *g::lang_index(); if (sc.patterned) W().ev.count("gen:patterned-word-indices");
        const lib::LangEntry& le = REG->at(li); bool zh = is_zh(le.name_en);
        bool full = W().args.thorough() ? !zh || *in_range<int>(0, 8) == 0 : (!zh && *in_range<int>(0, 4) == 0);
        Case c; c.set("kind", "phrase"); c.set("secret", hex(sec)); c.set("birthday", (uint64_t)bd); c.set("ufeat", uf); c.set("enc", enc); c.set("coin", (uint64_t)coin); c.set("lang", le.name_en);
        c.set("full", full ? 1 : 0); c.set("stride", zh ? 64 : 8); c.set("offset", *in_range<unsigned>(0, 64));
        set_current(c); std::string m = oracle(c); if (!m.empty()) VF_FAIL(c, m);
    });
}

int main(int argc, char** argv) { return worker_main(argc, argv, "C02", Hooks{run, [](const Case& c) { setup(); return oracle(c); }}); }
