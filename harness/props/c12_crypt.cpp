// C12 — password encryption: involution, always a valid seed, exact KDF inputs (model of the mask application).
#include "gen.hpp"
using namespace vf;

static const lib::Registry* REG;
static void setup() { Case c; c.set("phase", "setup"); set_current(c); deps::inject(0); REG = &lib::Registry::get(); model::require_self_check(); }

// case: secret birthday features pw(hex utf8, no NUL) chain(hex: 0 same, 1 canonically equivalent other form, 2 different password) maskmode(0 mix,1 fixed) mask(hex32) lang coin
static std::string oracle(const Case& c) {
    deps::Kit& k = deps::kit(0); k.reset_all(); Evidence& ev = W().ev;
    std::string sec = c.bytes("secret"); sec.resize(19, '\0'); std::vector<uint8_t> sv(sec.begin(), sec.end());
    unsigned feat = (unsigned)c.u("features") & 0x17u; model::Seed cur = g::to_seed(sv, (int)(c.u("birthday") & 1023u), feat);
    std::string err; lib::SeedPtr s(g::build_by_create(cur, 7, 0, &err)); if (!s.p) return "cannot create seed: " + err;
    // the enabled-feature mask may have been narrowed since the seed was made: the operation belongs to the seed, whose user bits it must leave alone
    bool narrowed = false; if (c.has("narrow")) { polyseed_enable_features((unsigned)c.u("narrow") & 7u); narrowed = true; ev.count((feat & 7u & ~(unsigned)c.u("narrow")) ? "mask-narrowed-before-crypt:seed-holds-a-disabled-bit" : "mask-narrowed-before-crypt"); }
    struct Restore { bool on; ~Restore() { if (on) polyseed_enable_features(7); } } restore{narrowed};
    std::string pw = c.bytes("pw"); if (pw.find('\0') != std::string::npos) pw.resize(pw.find('\0'));
    if (!model::valid_utf8(pw)) { ev.count("discard:invalid-utf8-password"); return ""; }   // arbitrary bytes are C14's business
    std::string pwn = model::nfkd(pw); if (pwn.size() > POLYSEED_STR_SIZE - 1) { ev.count("discard:password-too-long"); return ""; }
    // alternative spellings: the other canonical form, and a genuinely different password
    std::string other_form = (model::nfc(pw) != pw) ? model::nfc(pw) : model::nfd(pw); std::string diff = pw + "x";
    if (c.u("maskmode") == 2) k.kdf_mode = deps::KDF_ECHO;   /* the first derived mask equals whatever the library's mask buffer held before the call; later calls return the same mask */
    else if (c.u("maskmode") == 1) { k.kdf_mode = deps::KDF_FIXED; std::string mk = c.bytes("mask"); mk.resize(32, '\0'); memcpy(k.kdf_fixed, mk.data(), 32); } else k.kdf_mode = deps::KDF_MIX;
    std::string chain = c.bytes("chain"); if (chain.empty()) chain = std::string(1, '\0');
    const model::Seed orig = cur; int same_parity = 0; bool only_same = true; bool nonascii = false; for (unsigned char ch : pw) if (ch >= 0x80) nonascii = true;
    bool topbits = false;
    for (unsigned char op : chain) {
        const std::string& use = (op % 3 == 0) ? pw : (op % 3 == 1) ? other_form : diff;
        std::string usen = model::nfkd(use); if (usen.size() > POLYSEED_STR_SIZE - 1) { ev.count("discard:password-too-long"); return ""; }
        if (op % 3 == 2) only_same = false; else same_parity ^= 1;
        char* in = (char*)malloc(use.size() + 1); memcpy(in, use.c_str(), use.size() + 1); // exactly sized: an over-read hits a red zone
        k.kdf.clear(); k.truncated = false;
        if (c.u("allocfail")) k.fail_all = true;   /* the operation needs no memory: an exhausted allocator must not change its result */
        polyseed_crypt(s, in); k.fail_all = false;
        bool modified = memcmp(in, use.c_str(), use.size() + 1) != 0; free(in); if (modified) return "crypt modified the password buffer";
        if (k.kdf.size() != 1) return "crypt invoked the KDF " + std::to_string(k.kdf.size()) + " times, must be exactly once";
        const deps::KdfCall& kc = k.kdf[0]; auto salt = model::crypt_salt();
        if (kc.pwlen != usen.size() || std::string(kc.pw.begin(), kc.pw.end()) != usen) return "crypt: KDF password is " + hex(kc.pw) + " (length " + std::to_string(kc.pwlen) + "), must be NFKD(password) without terminator = " + hex(usen) + " (length " + std::to_string(usen.size()) + ")";
        if (kc.saltlen != 16 || memcmp(kc.salt.data(), salt.data(), 16) != 0) return "crypt: KDF salt is " + hex(kc.salt) + " (length " + std::to_string(kc.saltlen) + "), must be 'POLYSEED mask' 00 FF FF";
        if (kc.iterations != model::KDF_ITERATIONS) return "crypt: iteration count is " + std::to_string(kc.iterations);
        if (kc.keylen != 32) return "crypt: requested mask length is " + std::to_string(kc.keylen) + ", must be 32";
        uint8_t mask[32];
        if (k.kdf_mode == deps::KDF_ECHO) { if (kc.out.size() != 32) return "internal: echo mask not recorded"; memcpy(mask, kc.out.data(), 32); memcpy(k.kdf_fixed, mask, 32); k.kdf_mode = deps::KDF_FIXED; ev.count("mask:equals-previous-content-of-the-mask-buffer"); }
        else deps::kdf_fill(k, kc.pw.data(), kc.pwlen, kc.salt.data(), kc.saltlen, mask, 32);
        if ((mask[18] ^ 0) & 0xC0) topbits = true;
        cur = model::crypt(cur, mask);
        lib::Image img = lib::store(s); auto mi = model::image(cur);
        if (img != mi) return "after crypt the seed is " + hex(img.data(), 32) + ", the specification gives " + hex(mi.data(), 32) + " (secret ^= mask[0..18], top two bits of byte 18 cleared, encrypted bit toggled, birthday and user bits unchanged, check value recomputed)";
        if (polyseed_is_encrypted(s) != (int)((cur.features >> 4) & 1)) return "is_encrypted does not follow the number of applications";
        if (polyseed_get_birthday(s) != model::birthday_time(cur.birthday)) return "crypt changed the birthday";
    }
    if (only_same && same_parity == 0 && !(cur == orig)) return "an even number of applications with the same (or canonically equivalent) password does not restore the seed";
    // the result is a well-formed seed: every representation round-trips
    if (narrowed) polyseed_enable_features(7);
    {
        lib::Image img = lib::store(s); lib::SeedPtr l; int st = polyseed_load(img.data(), l.out()); if (st != 0) { l.p = nullptr; return std::string("load of the seed after crypt returned ") + model::status_name(st); }
        if (lib::store(l) != img) return "store/load of the seed after crypt changes it";
        const lib::LangEntry* le = REG->by_name(c.get("lang")); unsigned coin = (unsigned)c.u("coin") & 2047u;
        if (le) { std::string ph = lib::encode(s, le->lang, coin); lib::Image di; int sd = lib::decode_x(ph, coin, le->lang, &di); if (sd != 0) return std::string("phrase of the seed after crypt decodes to ") + model::status_name(sd); if (di != img) return "encode/decode of the seed after crypt changes it"; }
    }
    s.reset();  
    bool nt = topbits || nonascii || chain.size() >= 2;
    ev.eval(); if (topbits) ev.count("mask-top-bits-of-byte18-set"); if (nonascii) ev.count("password:non-ascii"); if (pw.empty()) ev.count("password:empty"); if (pwn.size() >= 256) ev.count("password:nfkd>=256-bytes"); if (other_form != pw) ev.count("password:has-other-canonical-form");
    if (chain.size() >= 2) ev.count("chain>=2"); if (only_same && same_parity == 0) ev.count("involution-checked"); if (!only_same) ev.count("wrong-password-used");
    if (nt) { ev.nt(c); ev.sample(nonascii ? "non-ascii" : "ascii", c); } else ev.count("trivial");
    return "";
}

static rc::Gen<std::string> password() {
    using namespace rc;
    const model::Golden& g = model::Golden::get();
    auto word_of = [&g](const char* lang) { const model::Lang* l = g.by_name(lang); return gen::map(vf::in_range<int>(0, 2048), [l](int i) { return l->words[i]; }); };
    Gen<std::string> piece = gen::weightedOneOf<std::string>({
        {3, gen::container<std::string>(gen::inRange<char>(32, 127))},
        {2, gen::map(word_of("Spanish"), [](std::string w) { return model::nfc(w); })}, {2, word_of("French")}, {1, word_of("Korean")}, {1, gen::map(word_of("Japanese"), [](std::string w) { return model::nfc(w); })},
        {1, gen::element<std::string>("e\xcc\x82\xcc\xa3", "e\xcc\xa3\xcc\x82", "Vi\xe1\xbb\x87t", "a\xcc\x81\xcc\xa7\xcc\x88", "o\xcc\x9b\xcc\x89", "q\xcc\x87\xcc\xa3")},   // several marks on one letter, in and out of canonical order
        {1, gen::element<std::string>("\xef\xac\x81", "\xef\xbc\xa1\xef\xbd\x82", "\xe2\x84\xab", "\xc7\x86", "\xe3\x8d\xbf", "\xe2\x91\xa0", "\xc2\xbd", "\xe3\x80\x80", "\xc2\xa0", "\xef\xb7\xba")},   // fi ligature, full-width Ab, Angstrom, dz-caron, square Kabushiki, circled 1, 1/2, ideographic space, NBSP, Arabic ligature (expands x18)
        {1, gen::map(gen::container<std::vector<uint32_t>>(gen::weightedOneOf<uint32_t>({{3, gen::inRange<uint32_t>(0xA0, 0x3000)}, {1, gen::inRange<uint32_t>(0x300, 0x370)}, {1, gen::inRange<uint32_t>(0xAC00, 0xD7A4)}, {1, gen::inRange<uint32_t>(0x10000, 0x1F000)}})), [](std::vector<uint32_t> v) { for (auto& c : v) if (c >= 0xD800 && c < 0xE000) c = 0x41; return model::utf8(v); })},
    });
    // characters that text tools like to strip or fold: byte order mark, zero-width space/joiner, soft hyphen, word joiner, variation selector — at either end
    Gen<std::string> special = gen::element<std::string>("\xef\xbb\xbf", "\xe2\x80\x8b", "\xe2\x80\x8d", "\xc2\xad", "\xe2\x81\xa0", "\xef\xb8\x8f", "\t", "\n", " ", "\xc2\xa0");
    // long passwords: normalised lengths around 255/256/257 (a length kept in one byte wraps there) and up to the buffer limit
    Gen<std::string> longpw = gen::apply([](int len, std::string unit, std::string tail) { std::string s; while ((int)model::nfkd(s + unit).size() <= len) s += unit; while ((int)model::nfkd(s).size() < len) s += "x"; return s + tail; },
        gen::weightedOneOf<int>({{4, gen::inRange(250, 262)}, {2, gen::inRange(505, 520)}, {2, gen::inRange(530, 541)}, {1, gen::inRange(60, 250)}}), gen::element<std::string>("a", "pass word ", "\xc3\xa9", "\xea\xb0\x80", "Z9"), gen::element<std::string>("", "!", "\xc3\xb1"));
    return gen::resize(100, gen::weightedOneOf<std::string>({{1, gen::just(std::string())}, {1, longpw}, {2, gen::apply([](std::string a, std::vector<std::string> v, std::string b, int where) { std::string s; for (auto& x : v) s += x; return where == 0 ? a + s : where == 1 ? s + b : where == 2 ? a : a + s + b; }, special, gen::resize(3, gen::container<std::vector<std::string>>(gen::resize(12, piece))), special, gen::inRange(0, 4))}, {8, gen::map(gen::resize(4, gen::container<std::vector<std::string>>(gen::resize(12, piece))), [](std::vector<std::string> v) { std::string s; for (auto& p : v) s += p; return s; })}}));
}

static void run() {
    setup(); Args& a = W().args;
    // every normalised password length 0..543, in four alphabets (ASCII; a precomposed letter that decomposes to 3 bytes; a ligature that expands; a Hangul syllable)
    { uint64_t idx = 0, done = 0; static const char* UNIT[4] = {"p", "\xc3\xa9", "\xef\xac\x81", "\xed\x95\x9c"};
      for (int u = 0; u < 4; u++) for (size_t len = 0; len < POLYSEED_STR_SIZE; len++) {
        if ((int)(idx++ % (uint64_t)a.nworkers) != a.worker) continue;
        std::string pw; size_t ul = model::nfkd(UNIT[u]).size(); while (model::nfkd(pw).size() + ul <= len) pw += UNIT[u]; while (model::nfkd(pw).size() < len) pw += "x";
        SplitMix sm(mix64(a.seed * 977 + idx)); std::vector<uint8_t> sec(19); for (auto& b : sec) b = (uint8_t)sm.next();
        Case c; c.set("secret", hex(sec)); c.set("birthday", sm.next() % 1024); c.set("features", (uint64_t)(sm.next() % 32) & 0x17u); c.set("pw", hex(pw)); c.set("chain", hex(std::string("\x00\x01", 2))); c.set("maskmode", 0); c.set("lang", REG->at(idx % REG->size()).name_en); c.set("coin", sm.next() % 2048);
        set_current(c); std::string m = oracle(c); done++; if (!m.empty() && enum_fail(c, m)) return; }
      W().ev.enumerated["normalised password lengths 0..543 x 4 alphabets"] += done; W().ev.count("password-length-sweep", done); }
    rc_run("c12-crypt", a.n(30000, 300000), 100, [&]() {
        Case c; c.set("secret", hex(*g::secret19())); c.set("birthday", (uint64_t)*g::birthday()); c.set("features", *in_range<unsigned>(0, 32) & 0x17u);
        std::string pw = *password(); if (pw.find('\0') != std::string::npos) pw.resize(pw.find('\0')); c.set("pw", hex(pw));
        int n = *rc::gen::element(1, 1, 2, 2, 2, 3, 4); std::string chain; bool mixed = *in_range<int>(0, 3) == 0; for (int i = 0; i < n; i++) chain.push_back((char)(mixed ? *in_range<int>(0, 3) : *in_range<int>(0, 2)));
        c.set("chain", hex(chain)); int mm = *rc::gen::element(0, 0, 0, 1, 1, 1, 2); c.set("maskmode", (uint64_t)mm);
        if (mm == 1) c.set("mask", hex(*rc::gen::weightedOneOf<std::vector<uint8_t>>({{4, vf::bytes(32)}, {1, rc::gen::just(std::vector<uint8_t>(32, 0))}, {1, rc::gen::just(std::vector<uint8_t>(32, 0xFF))}, {2, rc::gen::map(vf::bytes(32), [](std::vector<uint8_t> v) { v[18] |= 0xC0; return v; })}})));
        c.set("lang", REG->at(*g::lang_index()).name_en); c.set("coin", (uint64_t)*g::coin()); if (*in_range<int>(0, 8) == 0) c.set("allocfail", 1); if (*in_range<int>(0, 3) == 0) c.set("narrow", *in_range<unsigned>(0, 8));
        set_current(c); std::string m = oracle(c); if (!m.empty()) VF_FAIL(c, m);
    });
}
int main(int argc, char** argv) { return worker_main(argc, argv, "C12", Hooks{run, [](const Case& c) { setup(); return oracle(c); }}); }
