// C06 — serialisation: lossless, canonical, strictly validated (reference model of the 32-byte image).
#include "gen.hpp"
using namespace vf;

static const lib::Registry* REG;
static void setup() { Case c; c.set("phase", "setup"); set_current(c); deps::inject(0); REG = &lib::Registry::get(); model::require_self_check(); }

// case: kind=buf  buf(hex32) mask
//       kind=seed secret birthday features mask randtop
static std::string check_buffer(const uint8_t* buf, unsigned mask, const char** cls) {
    deps::Kit& k = deps::kit(0);
    polyseed_enable_features((mask & 8u) ? (0xFFFFFFF8u | (mask & 7u)) : mask);   // bit 3 of the case's mask selects an enabling argument with every higher bit set; only the three user bits may count
    mask &= 7u;
    // exactly-sized heap copy: reading a 33rd byte hits a red zone
    static unsigned parity = 0; unsigned off = (parity++ & 1);   // every other buffer starts at an odd address: the codec may not assume alignment
    uint8_t* raw = (uint8_t*)malloc(32 + off); uint8_t* in = raw + off; memcpy(in, buf, 32);
    size_t live_before = k.live.size();
    polyseed_data* s = nullptr; int st = polyseed_load(in, &s);
    bool modified = memcmp(in, buf, 32) != 0; free(raw);
    if (modified) return "load modified its input buffer";
    model::Seed ms; int expect = model::load_verdict(buf, mask, &ms);
    static const char* names[] = {"OK", "", "", "CHECKSUM", "UNSUPPORTED", "FORMAT"}; *cls = expect <= 5 ? names[expect] : "?";
    if (st != expect) { if (st == 0) polyseed_free(s); return std::string("load returned ") + model::status_name(st) + ", the specification says " + model::status_name(expect) + " for buffer " + hex(buf, 32) + " (enabled mask " + std::to_string(mask) + ")"; }
    if (st == 0) {
        lib::Image back; { uint8_t* r2 = (uint8_t*)malloc(33); polyseed_store(s, r2 + 1); memcpy(back.data(), r2 + 1, 32); free(r2); }   // store into an odd address as well
        if (memcmp(back.data(), buf, 32) != 0) { polyseed_free(s); return "store(load(buf)) != buf: " + hex(back.data(), 32) + " vs " + hex(buf, 32); }
        if (polyseed_get_birthday(s) != model::birthday_time(ms.birthday)) { polyseed_free(s); return "loaded seed reports a different birthday"; }
        if (polyseed_is_encrypted(s) != (int)((ms.features >> 4) & 1)) { polyseed_free(s); return "loaded seed reports a different encryption flag"; }
        if (polyseed_get_feature(s, 7) != (ms.features & 7u)) { polyseed_free(s); return "loaded seed reports different user features"; }
        polyseed_free(s);
    }
    if (k.live.size() != live_before) return "a seed block is left allocated after load";
    if (!k.ledger_errors.empty()) return "allocator ledger: " + k.ledger_errors[0];
    return "";
}

static std::string oracle(const Case& c) {
    deps::Kit& k = deps::kit(0); k.reset_all(); Evidence& ev = W().ev;
    unsigned mask = (unsigned)c.u("mask", 7) & 15u;
    if (c.get("kind") == "buf") {
        std::string b = c.bytes("buf"); b.resize(32, '\0'); const char* cls = "";
        std::string m = check_buffer((const uint8_t*)b.data(), mask, &cls); if (!m.empty()) return m;
        bool header_ok = memcmp(b.data(), "POLYSEED", 8) == 0;
        ev.eval(); ev.count(std::string("verdict:") + cls); ev.count("gen:" + c.get("gen", "?"));
        if (header_ok) { ev.nt(c); ev.sample(std::string("buf:") + c.get("gen", "?") + ":" + cls, c); } else ev.count("trivial(header-mismatch)");
        return "";
    }
    // seed round trip: store bytes equal the model image for every field value; load(store(s)) is the same seed
    std::string sec = c.bytes("secret"); sec.resize(19, '\0'); std::vector<uint8_t> sv(sec.begin(), sec.end());
    unsigned feat = (unsigned)c.u("features") & 0x17u;
    model::Seed want = g::to_seed(sv, (int)(c.u("birthday") & 1023u), feat);
    std::string err; lib::SeedPtr s(g::build_by_create(want, mask | (feat & 7u), (unsigned)c.u("randtop") & 3u, &err)); if (!s.p) return "cannot create seed: " + err;
    lib::Image img = lib::store(s); auto mi = model::image(want);
    if (img != mi) return "store bytes differ from 'POLYSEED'||LE16(features<<10|birthday)||secret||FF||LE16(0x7000|check): library " + hex(img.data(), 32) + " specification " + hex(mi.data(), 32);
    lib::SeedPtr s2; int st = polyseed_load(img.data(), s2.out());
    if (st != 0) { s2.p = nullptr; return std::string("load(store(seed)) returned ") + model::status_name(st); }
    g::Obs o1 = g::observe(s, 5, 32), o2 = g::observe(s2, 5, 32);
    if (!(o1 == o2)) return "load(store(seed)) is a different seed: {" + o1.str() + "} vs {" + o2.str() + "}";
    // a canonical image stays accepted under any larger mask and the stricter masks reject it only as UNSUPPORTED
    for (unsigned m2 = 0; m2 < 16; m2++) { const char* cls; std::string m = check_buffer(img.data(), m2, &cls); if (!m.empty()) return m; }
    s.reset(); s2.reset(); if (!k.live.empty()) return "seed blocks still allocated";
    ev.eval(); ev.nt(c); ev.count("seed-roundtrip"); ev.sample("seed", c);
    return "";
}

static Case buf_case(const uint8_t* b, unsigned mask, const char* gen) { Case c; c.set("kind", "buf"); c.set("buf", hex(b, 32)); c.set("mask", mask); c.set("gen", gen); return c; }

static void fix_check(uint8_t* b) { // recompute the check value over the (possibly non-canonical) fields as the format defines it
    model::Seed s; memcpy(s.secret.data(), b + 10, 19); unsigned v = b[8] | (b[9] << 8); s.birthday = v & 1023u; s.features = (v >> 10) & 31u;
    // padding bits, if present, are fed through the packing the way a lenient reader would (masked) and the way a raw reader would (unmasked, handled by caller)
    s.secret[18] &= 0x3F; unsigned chk = model::pack(s)[0]; unsigned f = 0x7000u | chk; b[30] = (uint8_t)f; b[31] = (uint8_t)(f >> 8);
}

static void run() {
    setup(); Args& a = W().args; Evidence& ev = W().ev;
    // ---- field-wise exhaustive sweeps around valid images (sharded by a running index)
    uint64_t idx = 0, done = 0; bool failed = false;
    auto emit = [&](const uint8_t* b, unsigned mask, const char* gen) {
        if (failed) return; if ((int)(idx++ % (uint64_t)a.nworkers) != a.worker) return;
        Case c = buf_case(b, mask, gen); set_current(c); std::string m = oracle(c); done++; if (!m.empty() && enum_fail(c, m)) failed = true;
    };
    for (int base = 0; base < 3 && !failed; base++) {
        SplitMix sm(mix64(a.seed * 31 + (uint64_t)base)); model::Seed s; for (auto& x : s.secret) x = (uint8_t)sm.next(); s.secret[18] &= 0x3F; s.birthday = (unsigned)(sm.next() % 1024); s.features = (unsigned)(sm.next() % 32) & 0x17u;
        auto img = model::image(s); unsigned mask = 7;
        for (int i = 0; i < 8; i++) for (int v = 0; v < 256; v++) { auto b = img; if (b[i] == v) continue; b[i] = (uint8_t)v; emit(b.data(), mask, "header-byte"); }
        for (unsigned v = 0; v < 65536; v++) { auto b = img; b[8] = (uint8_t)v; b[9] = (uint8_t)(v >> 8); emit(b.data(), (v >> 3) & 7, "bytes8-9:old-check"); fix_check(b.data()); emit(b.data(), (v >> 5) & 7, "bytes8-9:new-check"); }
        for (int pad = 1; pad < 4; pad++) for (unsigned m = 0; m < 8; m++) {
            auto b = img; b[28] = (uint8_t)((b[28] & 0x3F) | (pad << 6)); emit(b.data(), m, "padding:old-check");
            fix_check(b.data()); emit(b.data(), m, "padding:new-check");
        }
        for (int v = 0; v < 256; v++) { auto b = img; b[29] = (uint8_t)v; emit(b.data(), mask, "byte29"); }
        { // the same bytes in another order: what a word-wise / other-endian comparison or field read would also accept
            auto rev = [](std::array<uint8_t, 32> b, int from, int n, int group) { for (int g0 = from; g0 + group <= from + n; g0 += group) std::reverse(b.begin() + g0, b.begin() + g0 + group); return b; };
            for (int group : {2, 4, 8}) { emit(rev(img, 0, 8, group).data(), mask, "reordered:magic"); }
            for (int r = 1; r < 8; r++) { auto b = img; std::rotate(b.begin(), b.begin() + r, b.begin() + 8); emit(b.data(), mask, "reordered:magic"); }
            for (int i = 0; i < 8; i++) for (int j = i + 1; j < 8; j++) { auto b = img; std::swap(b[i], b[j]); emit(b.data(), mask, "reordered:magic"); }
            { auto b = img; for (int i = 0; i < 8; i++) b[i] = (uint8_t)tolower(b[i]); emit(b.data(), mask, "reordered:magic"); }
            for (int group : {2, 4, 8, 16, 32}) { emit(rev(img, 0, 32, group).data(), mask, "reordered:whole-image"); }
            for (auto fr : {std::pair<int, int>{8, 2}, {30, 2}, {10, 19}, {10, 20}, {8, 22}, {28, 4}}) { auto b = rev(img, fr.first, fr.second, fr.second); emit(b.data(), mask, "reordered:field"); fix_check(b.data()); emit(b.data(), mask, "reordered:field+new-check"); }
        }
        for (unsigned v = 0; v < 65536; v++) { auto b = img; b[30] = (uint8_t)v; b[31] = (uint8_t)(v >> 8); emit(b.data(), mask, "bytes30-31"); }
        for (int i = 10; i < 29; i++) for (int bit = 0; bit < 8; bit++) { auto b = img; b[i] ^= (uint8_t)(1 << bit); emit(b.data(), mask, "secret-bit:old-check"); fix_check(b.data()); emit(b.data(), mask, "secret-bit:new-check"); }
    }
    ev.enumerated["field sweeps (header bytes, bytes 8-9 x2, padding bits x masks, byte 29, bytes 30-31, secret bits) around 3 valid images [this worker's shard]"] += done;
    if (failed) return;
    // ---- generated buffers
    rc_run("c06-buffers", a.n(40000, 1500000), 100, [&]() {
        int kind = *rc::gen::weightedOneOf<int>({{5, rc::gen::just(0)}, {3, rc::gen::just(1)}, {1, rc::gen::just(2)}, {3, rc::gen::just(3)}});
        auto sec = *g::secret19(); int bd = *g::birthday(); unsigned feat = *in_range<unsigned>(0, 32); unsigned mask = *in_range<unsigned>(0, 16);
        model::Seed s = g::to_seed(sec, bd, feat); auto img = model::image(s); const char* gn = "valid-image";
        if (kind == 0) { // 1-6 simultaneous field mutations, optionally with the check value recomputed
            int n = *in_range<int>(1, 7); gn = "multi-mutation";
            for (int i = 0; i < n; i++) { int pos = *rc::gen::weightedOneOf<int>({{2, in_range<int>(0, 8)}, {3, in_range<int>(8, 10)}, {3, in_range<int>(10, 29)}, {2, rc::gen::just(28)}, {2, rc::gen::just(29)}, {3, in_range<int>(30, 32)}}); img[pos] ^= (uint8_t)(1u << *in_range<int>(0, 8)); }
            if (*in_range<int>(0, 2)) { fix_check(img.data()); gn = "multi-mutation+new-check"; }
        } else if (kind == 1) { gn = "valid-image"; }
        else if (kind == 2) { auto r = *vf::bytes(32); memcpy(img.data(), r.data(), 32); gn = "uniform-random"; }
        else { auto r = *vf::bytes(24); memcpy(img.data() + 8, r.data(), 24); gn = "random-with-header"; if (*in_range<int>(0, 2)) { img[29] = 0xFF; img[31] = (uint8_t)(0x70 | (img[31] & 7)); img[9] &= 0x7F; img[28] &= 0x3F; gn = "random-fields-valid-frame"; if (*in_range<int>(0, 2)) { fix_check(img.data()); gn = "random-fields-valid-frame+check"; } } }
        Case c = buf_case(img.data(), mask, gn); set_current(c); std::string m = oracle(c); if (!m.empty()) VF_FAIL(c, m);
    });
    rc_run("c06-seeds", a.n(8000, 200000), 100, [&]() {
        auto sec = *g::secret19(); int bd = *g::birthday(); unsigned feat = *in_range<unsigned>(0, 32) & 0x17u;
        Case c; c.set("kind", "seed"); c.set("secret", hex(sec)); c.set("birthday", (uint64_t)bd); c.set("features", feat); c.set("mask", *in_range<unsigned>(0, 8)); c.set("randtop", *in_range<unsigned>(0, 4));
        set_current(c); std::string m = oracle(c); if (!m.empty()) VF_FAIL(c, m);
    });
}

int main(int argc, char** argv) { return worker_main(argc, argv, "C06", Hooks{run, [](const Case& c) { setup(); return oracle(c); }}); }
