// C03 — phrases follow the published bit layout exactly (conformance against the reference model).
#include "gen.hpp"
using namespace vf;

static const lib::Registry* REG;
static void setup() { Case c; c.set("phase", "setup"); set_current(c); deps::inject(0); REG = &lib::Registry::get(); model::require_self_check(); }

// case: secret birthday features(5 bits, bit3 must be 0) coin lang
static std::string oracle(const Case& c) {
    deps::Kit& k = deps::kit(0); k.reset_all(); Evidence& ev = W().ev;
    const lib::LangEntry* le = REG->by_name(c.get("lang")); if (!le || !le->golden) return "";
    std::string sec = c.bytes("secret"); sec.resize(19, '\0'); std::vector<uint8_t> sv(sec.begin(), sec.end());
    unsigned feat = (unsigned)c.u("features") & 0x17u; unsigned coin = (unsigned)c.u("coin") & 2047u;
    model::Seed want = g::to_seed(sv, (int)(c.u("birthday") & 1023u), feat);
    unsigned mask = (unsigned)c.u("mask", 7) & 7u; mask |= feat & 7u;
    std::string err; lib::SeedPtr s(g::build_by_create(want, mask, (unsigned)c.u("randtop") & 3u, &err));
    if (!s.p) return "cannot create seed: " + err;
    std::array<unsigned, 16> co; std::string expect = model::phrase(*le->golden, want, coin, &co);
    size_t ret = 0; std::string got = lib::encode(s, le->lang, coin, &ret);
    if (got != expect) {
        // say which word differs
        auto tg = lib::tokens(got), te = lib::tokens(expect); std::string where;
        for (size_t i = 0; i < 16 && i < tg.size() && i < te.size(); i++) if (tg[i] != te[i]) { where = " first difference at word " + std::to_string(i + 1) + ": library '" + tg[i] + "' specification '" + te[i] + "' (index " + std::to_string(co[i]) + ")"; break; }
        if (where.empty()) where = " (same words; separator or composition differs)";
        return "encode differs from the specification's phrase for " + want.describe() + " coin=" + std::to_string(coin) + " lang=" + le->name_en + ":" + where + " library=[" + got + "] spec=[" + expect + "]";
    }
    if (ret != got.size()) return "encode returned " + std::to_string(ret) + ", strlen is " + std::to_string(got.size());
    if (c.u("purity")) { k.fail_all = true; std::string g2 = lib::encode(s, le->lang, coin); k.fail_all = false; if (g2 != got) return "with an exhausted allocator encode produces a different phrase: [" + g2 + "] instead of [" + got + "]"; }
    lib::Image img = lib::store(s); unsigned foot = img[30] | (img[31] << 8);
    if (foot != (0x7000u | model::pack(want)[0])) return "bytes 30-31 of store are not LE16(0x7000 | check value): got " + std::to_string(foot) + " expected " + std::to_string(0x7000u | model::pack(want)[0]);
    // purity: the same abstract seed reached through load, under another feature mask and after encoding other things first
    if (c.u("purity")) {
        lib::SeedPtr s2; int st = lib::load_model(want, s2.out());
        if (st == 0) {
            polyseed_enable_features(7);
            std::string other = lib::encode(s2, REG->at(c.u("otherlang")).lang, (coin + 1) & 2047u); (void)other;
            std::string again = lib::encode(s2, le->lang, coin);
            if (again != got) return "phrase depends on how the seed was obtained (create vs load) or on earlier calls: [" + got + "] vs [" + again + "]";
            ev.count("purity:create-vs-load");
        } else { s2.p = nullptr; ev.count("discard:load-construct-failed"); }
        std::string again2 = lib::encode(s, le->lang, coin);
        if (again2 != got) return "encoding the same seed twice gives different phrases";
        // the phrase is a function of the seed only: reconfiguring the enabled features (also to a mask that no longer admits this seed) must not change it
        unsigned m2 = (unsigned)c.u("othermask") & 7u; polyseed_enable_features(m2); std::string again3 = lib::encode(s, le->lang, coin); polyseed_enable_features(7);
        if (again3 != got) return "the phrase of a live seed changed after polyseed_enable_features(" + std::to_string(m2) + "): [" + got + "] vs [" + again3 + "]";
        ev.count("purity:after-feature-mask-change");
    }
    s.reset(); 
    ev.eval(); ev.nt(c); ev.count("lang:" + le->name_en);
    ev.count(coin == 0 ? "coin:0" : coin < 3 ? "coin:1-2" : coin >= 1024 ? "coin:>=1024" : "coin:3-1023");
    if (feat & 16u) ev.count("encrypted"); if (feat & 7u) ev.count("userfeatures"); if (want.birthday > 511) ev.count("birthday>511");
    ev.sample(c.get("class", "random") + ":" + le->name_en, c);
    return "";
}

static Case low_weight_case(const std::vector<int>& bits, const std::string& lang, unsigned coin) {
    // bit numbering over the 165 payload bits: 0..149 secret (MSB-first), 150..154 features bit4..bit0, 155..164 birthday bit9..bit0
    model::Seed s;
    for (int b : bits) { if (b < 150) model::set_secret_bit(s, b, true); else if (b < 155) s.features |= 1u << (4 - (b - 150)); else s.birthday |= 1u << (9 - (b - 155)); }
    Case c; c.set("secret", hex(s.secret.data(), 19)); c.set("birthday", s.birthday); c.set("features", s.features); c.set("coin", coin); c.set("lang", lang); c.set("class", "low-weight");
    return c;
}

static void run() {
    setup(); Args& a = W().args; Evidence& ev = W().ev;
    // (i) exhaustive: weight-0, weight-1 and weight-2 payloads (the reserved feature bit, payload bit 151, cannot be held by any seed and is left out)
    std::vector<std::vector<int>> pats; pats.push_back({});
    for (int i = 0; i < 165; i++) { if (i == 151) continue; pats.push_back({i}); }
    for (int i = 0; i < 165; i++) for (int j = i + 1; j < 165; j++) { if (i == 151 || j == 151) continue; pats.push_back({i, j}); }
    const unsigned coins[4] = {0, 1, 1024, 2047};
    uint64_t idx = 0, done = 0;
    for (size_t li = 0; li < REG->size(); li++) for (auto& p : pats) for (unsigned coin : coins) {
        if ((int)(idx++ % (uint64_t)a.nworkers) != a.worker) continue;
        Case c = low_weight_case(p, REG->at(li).name_en, coin); set_current(c);
        std::string m = oracle(c); done++; if (!m.empty() && enum_fail(c, m)) return;
    }
    ev.enumerated["low-weight payloads (<=2 of 164 bits) x languages x coins{0,1,1024,2047} [this worker's shard]"] += done;
    // (i') exhaustive: every birthday month x every holdable feature combination (16), random secret, language and coin rotating
    { uint64_t done2 = 0; for (unsigned bd = 0; bd < 1024; bd++) for (unsigned fi = 0; fi < 16; fi++) {
        if ((int)(idx++ % (uint64_t)a.nworkers) != a.worker) continue;
        unsigned feat = (fi & 7u) | ((fi & 8u) << 1); SplitMix sm(mix64(a.seed * 7919 + bd * 16 + fi)); std::vector<uint8_t> sec(19); for (auto& b : sec) b = (uint8_t)sm.next();
        Case c; c.set("secret", hex(sec)); c.set("birthday", (uint64_t)bd); c.set("features", feat); c.set("coin", sm.next() % 2048); c.set("lang", REG->at((bd + fi) % REG->size()).name_en); c.set("mask", 7); c.set("class", "birthday-x-features");
        set_current(c); std::string m = oracle(c); done2++; if (!m.empty() && enum_fail(c, m)) return; }
      ev.enumerated["every birthday month (1024) x every holdable feature combination (16) [this worker's shard]"] += done2; }
    // (ii) random
    rc_run("c03-random", a.n(60000, 400000), 100, [&]() {
        auto sc = *g::seed_coin(); auto sec = sc.sec; int bd = sc.bd; unsigned feat = sc.feat; int coin = sc.coin; int li = *g::lang_index(); if (sc.patterned) W().ev.count("gen:patterned-word-indices");
        Case c; c.set("secret", hex(sec)); c.set("birthday", (uint64_t)bd); c.set("features", feat); c.set("coin", (uint64_t)coin); c.set("lang", REG->at(li).name_en);
        c.set("mask", *in_range<unsigned>(0, 8)); c.set("randtop", *in_range<unsigned>(0, 4)); c.set("purity", *in_range<int>(0, 3) == 0 ? 1 : 0); c.set("otherlang", (uint64_t)*g::lang_index()); c.set("othermask", *in_range<unsigned>(0, 8)); c.set("class", "random");
        set_current(c); std::string m = oracle(c); if (!m.empty()) VF_FAIL(c, m);
    });
}

int main(int argc, char** argv) { return worker_main(argc, argv, "C03", Hooks{run, [](const Case& c) { setup(); return oracle(c); }}); }
