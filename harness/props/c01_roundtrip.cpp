// C01 — encode/decode round trip (model-free oracle: the library is compared with itself).
#include "gen.hpp"
#include <sys/wait.h>
using namespace vf;

static const lib::Registry* REG;

static void setup() {
    Case c; c.set("phase", "setup: polyseed_inject (debug self-test over all word lists)"); set_current(c);
    deps::inject(0);
    REG = &lib::Registry::get();
}

// Cold start: a wallet is restored from its phrase by a process that has done nothing else with the library yet.
// A child is forked BEFORE this process makes any checksum-related call; the parent then creates and encodes seeds and
// the child - whose first such call is the decode - must get the same seeds back.  (Only meaningful as the first case
// of a process: the worker runs it first, and replays / confirmations run it in a fresh process.)
static bool g_library_used = false;
static std::string coldstart(const Case& c) {
    if (g_library_used) return "";
    int to[2], from[2]; if (pipe(to) || pipe(from)) return ""; fflush(stdout); fflush(stderr);
    pid_t ch = fork(); if (ch < 0) return "";
    if (ch == 0) { // child: decode what the parent sends, answer with status + image per phrase
        close(to[1]); close(from[0]); W().in_child = true; polyseed_enable_features(7);
        for (;;) { std::string req; if (!recv_blob(to[0], req)) _exit(0); Case q = Case::parse(req); const lib::LangEntry* le = REG->by_name(q.get("lang")); std::string ph = q.bytes("phrase"); unsigned coin = (unsigned)q.u("coin");
            lib::Image ix{}, ia{}; int sx = le ? lib::decode_x(ph, coin, le->lang, &ix) : -1; const polyseed_lang* lo = nullptr; int sa = lib::decode_auto(ph, coin, &lo, &ia);
            Case a; a.set("sx", (uint64_t)sx); a.set("sa", (uint64_t)sa); a.set("ix", hex(ix.data(), 32)); a.set("ia", hex(ia.data(), 32)); a.set("lo", lo && REG->by_ptr(lo) ? REG->by_ptr(lo)->name_en : ""); if (!send_blob(from[1], a.str())) _exit(0); }
    }
    close(to[0]); close(from[1]); g_library_used = true; deps::Kit& k = deps::kit(0); std::string err; SplitMix sm(c.u("salt") + 1);
    for (size_t li = 0; li < REG->size() && err.empty(); li++) {
        std::vector<uint8_t> sec(19); for (auto& b : sec) b = (uint8_t)sm.next(); unsigned coin = sm.below(2048), uf = sm.below(8), enc = sm.below(2); k.reset_all();
        model::Seed want = g::to_seed(sec, (int)sm.below(1024), uf | (enc << 4)); std::string e2; lib::SeedPtr s(g::build_by_create(want, 7, 0, &e2)); if (!s.p) { err = "cannot create seed: " + e2; break; }
        const lib::LangEntry& le = REG->at(li); std::string ph = lib::encode(s, le.lang, coin); lib::Image img = lib::store(s);
        Case q; q.set("lang", le.name_en); q.set("phrase", hex(ph)); q.set("coin", coin); std::string ans;
        if (!send_blob(to[1], q.str()) || !recv_blob(from[0], ans)) { err = "the freshly started decoding process died while decoding a phrase of " + le.name_en; break; }
        Case a = Case::parse(ans);
        if (a.u("sx") != 0) err = "a process whose first use of the library is decoding rejects a valid " + le.name_en + " phrase with " + model::status_name((int)a.u("sx")) + " (the process that encoded it decodes it fine)";
        else if (a.get("ix") != hex(img.data(), 32)) err = "a freshly started process decodes the phrase to a different seed";
        else if (a.u("sa") != 0 && a.u("sa") != (uint64_t)model::MULT_LANG) err = std::string("a freshly started process: decode (auto) returns ") + model::status_name((int)a.u("sa"));
        else if (a.u("sa") == 0 && (a.get("ia") != hex(img.data(), 32) || a.get("lo") != le.name_en)) err = "a freshly started process: decode (auto) yields another seed or language";
    }
    close(to[1]); close(from[0]); int st = 0; waitpid(ch, &st, 0);
    if (err.empty()) { W().ev.eval(); W().ev.count("cold-start(decode is the first checksum-related call of a process)"); W().ev.nt(c); W().ev.sample("cold-start", c); }
    return err;
}

// case fields: secret(hex19) birthday ufeat enc mask coin lang path kcoin ksize randtop
static std::string oracle(const Case& c) {
    if (c.get("kind") == "coldstart") return coldstart(c);
    g_library_used = true;
    deps::Kit& k = deps::kit(0); k.reset_all();
    const lib::LangEntry* le = REG->by_name(c.get("lang"));
    if (!le) return ""; // language not registered on this tree: C07's business
    std::string sec = c.bytes("secret"); sec.resize(19, '\0');
    std::vector<uint8_t> sv(sec.begin(), sec.end());
    unsigned mask = (unsigned)c.u("mask") & 7u, ufeat = (unsigned)c.u("ufeat") & mask, enc = (unsigned)c.u("enc") & 1u;
    unsigned coin = (unsigned)c.u("coin") & 2047u, kcoin = (unsigned)c.u("kcoin") & 2047u; size_t ksize = (size_t)c.u("ksize", 32);
    model::Seed want = g::to_seed(sv, (int)(c.u("birthday") & 1023u), ufeat | (enc << 4));
    std::string path = c.get("path", "create");
    Evidence& ev = W().ev;

    polyseed_enable_features(mask);
    lib::SeedPtr s;
    if (path == "create") {
        std::string err; s.p = g::build_by_create(want, mask, (unsigned)c.u("randtop"), &err, c.u("clockoff") % model::STEP);
        if (!s.p) return "cannot create a seed the library must support: " + err;
    } else {
        int st = lib::load_model(want, s.out());
        if (st != 0) { ev.count("discard:load-construct-failed"); return ""; } // storage format is C06's business
    }
    g::Obs o0 = g::observe(s, kcoin, ksize);

    size_t ret = 0; std::string phrase = lib::encode(s, le->lang, coin, &ret);
    if (phrase.size() >= POLYSEED_STR_SIZE) return "encode: output not NUL-terminated within POLYSEED_STR_SIZE";
    if (ret != phrase.size()) return "encode returned " + std::to_string(ret) + " but strlen(output) = " + std::to_string(phrase.size());
    g::Obs o0b = g::observe(s, kcoin, ksize);
    if (!(o0 == o0b)) return "encode modified the seed object";

    // explicit decode, same coin and language
    k.truncated = false;
    lib::SeedPtr s2; int st = polyseed_decode_explicit(phrase.c_str(), (polyseed_coin)coin, le->lang, s2.out());
    if (k.truncated) return "the phrase produced by encode does not fit the normaliser's output buffer (truncated while decoding)";
    if (st != 0) { s2.p = nullptr; return std::string("decode_explicit(encode(seed)) returned ") + model::status_name(st) + " phrase=" + phrase; }
    g::Obs o2 = g::observe(s2, kcoin, ksize);
    if (!(o0 == o2)) return "decode_explicit yields a different seed: original {" + o0.str() + "} decoded {" + o2.str() + "}";

    // automatic detection
    const polyseed_lang* lo = nullptr; lib::SeedPtr s3; k.truncated = false;
    st = polyseed_decode(phrase.c_str(), (polyseed_coin)coin, &lo, s3.out());
    bool ambiguous = false;
    if (st == 0) {
        if (lo != le->lang) { const lib::LangEntry* g = REG->by_ptr(lo); return "decode detected language '" + (g ? g->name_en : std::string("?")) + "' for a phrase encoded in '" + le->name_en + "'"; }
        g::Obs o3 = g::observe(s3, kcoin, ksize);
        if (!(o0 == o3)) return "decode (auto) yields a different seed: original {" + o0.str() + "} decoded {" + o3.str() + "}";
    } else {
        s3.p = nullptr;
        if (st != model::MULT_LANG) return std::string("decode (auto) returned ") + model::status_name(st) + " for a library-produced phrase: " + phrase;
        // allowed only if another list also contains all 16 words (established model-free)
        for (auto& other : REG->langs) {
            if (other.lang == le->lang) continue;
            lib::SeedPtr t; int so = polyseed_decode_explicit(phrase.c_str(), (polyseed_coin)coin, other.lang, t.out());
            if (so != 0) t.p = nullptr;
            if (so != model::LANG && so != model::NUM_WORDS) ambiguous = true;
        }
        if (!ambiguous) return "decode (auto) returned MULT_LANG but no other language recognises all 16 words: " + phrase;
    }
    // also without lang_out
    { lib::SeedPtr s4; int st4 = polyseed_decode(phrase.c_str(), (polyseed_coin)coin, nullptr, s4.out()); if (st4 != 0) s4.p = nullptr; if (st4 != st) return "decode with lang_out=NULL returned a different status"; }
    s.reset(); s2.reset(); s3.reset();
    
    

    // evidence
    std::string ln = le->name_en; size_t internal = model::nfkd(phrase).size();
    bool realnorm = ln == "Japanese" || ln == "Korean" || ln == "Spanish" || ln == "French";
    bool nontrivial = coin > 2 || ufeat || enc || realnorm || ambiguous || internal >= 300;
    ev.eval(); ev.count("lang:" + ln); ev.count(std::string("path:") + path);
    if (ambiguous) { ev.count("ambiguous(MULT_LANG)"); ev.sample("ambiguous", c); }
    if (internal >= 300) { ev.count("long(internal>=300)"); ev.sample("long", c); }
    if (internal >= 360) ev.count("verylong(internal>=360)");
    if (enc && ufeat) ev.count("encrypted+userfeatures");
    if (coin > 2) ev.count("coin>2");
    if (nontrivial) { ev.nt(c); ev.sample("nontrivial:" + ln, c); } else ev.count("trivial");
    return "";
}

static Case make_case(const std::vector<uint8_t>& sec, int bd, unsigned mask, unsigned ufeat, unsigned enc, int coin, const std::string& lang, const char* path, int kcoin, size_t ksize, unsigned randtop, uint64_t clockoff) {
    Case c; c.set("secret", hex(sec)); c.set("birthday", (uint64_t)bd); c.set("mask", mask); c.set("ufeat", ufeat & mask); c.set("enc", enc); c.set("coin", (uint64_t)coin);
    c.set("lang", lang); c.set("path", path); c.set("kcoin", (uint64_t)kcoin); c.set("ksize", (uint64_t)ksize); c.set("randtop", randtop); c.set("clockoff", clockoff);
    return c;
}

static void run() {
    setup();
    Args& a = W().args;
    { Case c; c.set("kind", "coldstart"); c.set("salt", a.seed * 100 + (uint64_t)a.worker); set_current(c); std::string m = oracle(c); if (!m.empty() && enum_fail(c, m)) return; }
    // 0. exhaustive: every birthday month x every holdable feature combination, through the load path (round trip in a rotating language)
    { uint64_t idx = 0, done = 0; for (unsigned bd = 0; bd < 1024; bd++) for (unsigned fi = 0; fi < 16; fi++) {
        if ((int)(idx++ % (uint64_t)a.nworkers) != a.worker) continue;
        SplitMix sm(mix64(a.seed * 104729 + bd * 16 + fi)); std::vector<uint8_t> sec(19); for (auto& b : sec) b = (uint8_t)sm.next();
        Case c = make_case(sec, (int)bd, 7, fi & 7u, (fi >> 3) & 1u, (int)(sm.next() % 2048), REG->at((bd * 3 + fi) % REG->size()).name_en, "load", (int)(sm.next() % 2048), 32, 0, 0); c.set("gen", "birthday-x-features");
        set_current(c); std::string m = oracle(c); done++; if (!m.empty() && enum_fail(c, m)) return; }
      W().ev.enumerated["every birthday month (1024) x every holdable feature combination (16), load path"] += done; }
    // 1. uniform generator
    rc_run("c01-uniform", a.n(16000, 320000), 100, [&]() {
        auto sec = *g::secret19(); int bd = *g::birthday(); unsigned mask = *in_range<unsigned>(0, 8), uf = *in_range<unsigned>(0, 8), enc = *in_range<unsigned>(0, 2);
        int coin = *g::coin(); int li = *g::lang_index(); bool load = *in_range<int>(0, 4) == 0; int kcoin = *g::coin();
        size_t ksize = *rc::gen::element<size_t>(32, 32, 16, 64, 1, 33); unsigned rt = *in_range<unsigned>(0, 4); uint64_t off = *in_range<uint64_t>(0, model::STEP);
        Case c = make_case(sec, bd, mask, uf, enc, coin, REG->at(li).name_en, load ? "load" : "create", kcoin, ksize, rt, off);
        set_current(c); std::string m = oracle(c); if (!m.empty()) VF_FAIL(c, m);
    });
    // 1b. seeds patterned at the level of the 16 word indices (equal words, boundary indices, check word / coin relations)
    rc_run("c01-patterned", a.n(4000, 80000), 100, [&]() {
        auto sc = *g::patterned_seed(); int li = *g::lang_index(); bool load = *in_range<int>(0, 3) == 0;
        Case c = make_case(sc.sec, sc.bd, 7, sc.feat & 7u, (sc.feat >> 4) & 1u, sc.coin, REG->at(li).name_en, load ? "load" : "create", sc.coin, 32, 0, 0); c.set("gen", "patterned"); W().ev.count("gen:patterned-word-indices");
        set_current(c); std::string m = oracle(c); if (!m.empty()) VF_FAIL(c, m);
    });
    // 2. longest words of Japanese / Korean (decomposed lengths the uniform generator almost never reaches)
    const auto& wc = g::WordClasses::get();
    rc_run("c01-longest", a.n(2000, 40000), 100, [&]() {
        std::string ln = *rc::gen::element<std::string>("Korean", "Japanese", "Korean", "French", "Spanish");
        auto it = wc.longest.find(ln); RC_PRE(it != wc.longest.end() && REG->by_name(ln));
        int topk = *rc::gen::element(1, 2, 4, 8, 24, 48);
        std::array<unsigned, 16> shown{}; for (int i = 1; i < 16; i++) shown[i] = (unsigned)it->second[*in_range<int>(0, topk)];
        // word 3 must be even; pick the nearest long even index
        if (shown[2] & 1u) for (int j = 0; j < 48; j++) if (!(it->second[j] & 1)) { shown[2] = (unsigned)it->second[j]; break; }
        int coin = *g::coin(); model::Seed s = g::seed_showing(shown, (unsigned)coin);
        std::vector<uint8_t> sec(s.secret.begin(), s.secret.end());
        Case c = make_case(sec, (int)s.birthday, 7, s.features & 7u, (s.features >> 4) & 1u, coin, ln, "create", 0, 32, 0, 0);
        set_current(c); std::string m = oracle(c); if (!m.empty()) VF_FAIL(c, m);
    });
    // 3. words common to both Chinese lists (auto-detection must answer MULT_LANG or the right language)
    rc_run("c01-zh-common", a.n(2000, 40000), 100, [&]() {
        RC_PRE(wc.zh_common.size() > 16);
        std::string ln = *rc::gen::element<std::string>("Chinese (Simplified)", "Chinese (Traditional)"); RC_PRE(REG->by_name(ln) != nullptr);
        int ncommon = *rc::gen::element(15, 15, 15, 14, 12);
        std::array<unsigned, 16> shown{};
        for (int i = 1; i < 16; i++) shown[i] = (i <= ncommon) ? (unsigned)wc.zh_common[*in_range<size_t>(0, wc.zh_common.size())] : *in_range<unsigned>(0, 2048);
        { std::vector<int> even; for (int x : wc.zh_common) if (!(x & 1)) even.push_back(x); shown[2] = (unsigned)even[*in_range<size_t>(0, even.size())]; }
        int coin = *g::coin(); model::Seed s = g::seed_showing(shown, (unsigned)coin);
        std::vector<uint8_t> sec(s.secret.begin(), s.secret.end());
        Case c = make_case(sec, (int)s.birthday, 7, s.features & 7u, (s.features >> 4) & 1u, coin, ln, *in_range<int>(0, 2) ? "create" : "load", 0, 32, 0, 0);
        set_current(c); std::string m = oracle(c); if (!m.empty()) VF_FAIL(c, m);
    });
}

int main(int argc, char** argv) { return worker_main(argc, argv, "C01", Hooks{run, [](const Case& c) { setup(); return oracle(c); }}); }
