// C08 — abbreviated and unaccented words are accepted by one exact rule, and only by it.
// Words and phrases come from the library (coin-XOR table); the rule comes from the property text.
#include "gen.hpp"
using namespace vf;

static const lib::Registry* REG;
static void setup() { Case c; c.set("phase", "setup"); set_current(c); deps::inject(0); REG = &lib::Registry::get(); }

struct LangRule { bool prefix = false, noaccent = false; };
static LangRule rule_of(const std::string& name) { // from the property statement, not from the code
    LangRule r; r.prefix = name == "English" || name == "Spanish" || name == "French" || name == "Italian" || name == "Czech" || name == "Portuguese"; r.noaccent = name == "Spanish" || name == "French"; return r;
}
struct Ref { // reference matcher state per language
    std::vector<std::string> w, stripped; std::vector<size_t> nletters;
};
static const Ref& ref_of(const lib::LangEntry& le, const lib::LibWords& lw) {
    static std::map<const polyseed_lang*, Ref> cache; auto it = cache.find(le.lang); if (it != cache.end()) return it->second;
    Ref r; r.w = lw.w; r.stripped.resize(2048); r.nletters.resize(2048);
    for (int i = 0; i < 2048; i++) { r.stripped[i] = model::strip_marks(lw.w[i]); r.nletters[i] = model::codepoints(r.stripped[i]).size(); }
    return cache[le.lang] = r;
}
// A(t): indices of the words the rule accepts token t for
static std::vector<int> accepted(const Ref& r, const LangRule& lr, const std::string& token) {
    std::vector<int> a; std::string tn = model::nfkd(token); if (tn.empty()) return a;
    if (lr.noaccent) { std::string tl = model::strip_marks(tn); size_t n = model::codepoints(tl).size(); if (tl.empty()) return a;
        for (int i = 0; i < 2048; i++) { const std::string& wl = r.stripped[i]; if (wl == tl || (n >= 4 && wl.size() > tl.size() && wl.compare(0, tl.size(), tl) == 0)) a.push_back(i); } }
    else if (lr.prefix) { size_t n = model::codepoints(tn).size(); for (int i = 0; i < 2048; i++) { const std::string& w = r.w[i]; if (w == tn || (n >= 4 && w.size() > tn.size() && w.compare(0, tn.size(), tn) == 0)) a.push_back(i); } }
    else { for (int i = 0; i < 2048; i++) if (r.w[i] == tn) a.push_back(i); }
    return a;
}

// variant of a word: first L letters (with the marks that follow each), marks kept per bit mask, optionally NFC, optional suffix
static std::string variant(const std::string& word, size_t L, unsigned keepmask, bool composed, const std::string& suffix, bool* last_keeps_accent = nullptr) {
    auto cps = model::codepoints(word); std::vector<uint32_t> out; size_t letters = 0; unsigned mi = 0; bool lastacc = false;
    for (size_t i = 0; i < cps.size(); i++) {
        if (!model::is_mark(cps[i])) { if (letters == L) break; letters++; out.push_back(cps[i]); lastacc = false; }
        else { if ((keepmask >> mi) & 1u) { out.push_back(cps[i]); lastacc = true; } mi++; }
    }
    if (last_keeps_accent) *last_keeps_accent = lastacc;
    std::string s = model::utf8(out) + suffix; return composed ? model::nfc(s) : s;
}
static unsigned marks_in_prefix(const std::string& word, size_t L) { auto cps = model::codepoints(word); size_t letters = 0; unsigned m = 0; for (auto c : cps) { if (!model::is_mark(c)) { if (letters == L) break; letters++; } else m++; } return m; }

// Expected outcome by the rule for tokens `t` (16) given the base tokens and the set A of the varied position
static std::string judge(const lib::LangEntry& le, const Ref& r, const LangRule& lr, std::vector<std::string> toks, int pos, const std::string& tok, unsigned coin, const lib::Image& base_img, const std::string& base_word, std::string* cls) {
    std::vector<int> A = accepted(r, lr, tok);
    std::vector<std::string> t = toks; t[pos] = tok; std::string ph = lib::join(t);
    lib::Image img; int st = lib::decode_x(ph, coin, le.lang, &img);
    std::string desc = "token '" + tok + "' (" + hex(tok) + ") at word " + std::to_string(pos + 1) + " in " + le.name_en + " for word '" + base_word + "'";
    if (A.size() > 1) { *cls = "generator:ambiguous-by-rule"; return ""; }
    if (A.empty()) { *cls = "rule:no-word"; if (st != model::LANG) return desc + ": the rule accepts it for no word, decode_explicit returned " + model::status_name(st) + " instead of LANG"; return ""; }
    if (r.w[A[0]] == base_word) { *cls = "rule:same-word"; if (st != model::OK) return desc + ": the rule accepts it for that word, decode_explicit returned " + model::status_name(st); if (img != base_img) return desc + ": decodes to a different seed"; return ""; }
    *cls = "rule:other-word";
    std::vector<std::string> t2 = toks; t2[pos] = r.w[A[0]]; lib::Image img2; int st2 = lib::decode_x(lib::join(t2), coin, le.lang, &img2);
    if (st != st2 || (st == 0 && img != img2)) return desc + ": the rule maps it to '" + r.w[A[0]] + "' but the outcome (" + model::status_name(st) + ") differs from that word typed in full (" + model::status_name(st2) + ")";
    return "";
}

// case kind=word: lang k(index shown at word 2) secret birthday   -> all variants of word k
// case kind=one : lang k secret birthday L keep composed suffix(hex)
// case kind=mixed: lang secret birthday coin vars(hex: per position 3 bytes L, keep, composed)
static std::string oracle(const Case& c) {
    deps::Kit& k = deps::kit(0); k.reset_all(); Evidence& ev = W().ev; polyseed_enable_features(7);
    const lib::LangEntry* le = REG->by_name(c.get("lang")); if (!le) return "";
    const lib::LibWords& lw = lib::lib_words(*le); if (!lw.ok) { ev.count("discard:libwords-inconsistent"); ev.note("LibWords(" + le->name_en + "): " + lw.why); return ""; }
    const Ref& r = ref_of(*le, lw); LangRule lr = rule_of(le->name_en);
    std::string sec = c.bytes("secret"); sec.resize(19, '\0'); std::vector<uint8_t> sv(sec.begin(), sec.end());
    model::Seed want = g::to_seed(sv, (int)(c.u("birthday") & 1023u), (unsigned)c.u("ufeat") & 7u);
    std::string err; lib::SeedPtr s(g::build_by_create(want, 7, 0, &err)); if (!s.p) return "cannot create seed: " + err;
    lib::Image base_img = lib::store(s); std::string kind = c.get("kind", "word");
    if (kind == "mixed") {
        unsigned coin = (unsigned)c.u("coin") & 2047u; auto toks = lib::tokens(lib::encode(s, le->lang, coin)); if (toks.size() != 16) return "phrase does not have 16 tokens";
        std::string vars = c.bytes("vars"); vars.resize(48, '\0'); std::vector<std::string> t = toks; bool varied = false; bool any_d2 = false;
        for (int i = 0; i < 16; i++) {
            size_t nl = model::letters(toks[i]); size_t L = nl; unsigned keep = ~0u; bool comp = vars[3 * i + 2] & 1;
            if (lr.prefix && nl > 4) L = 4 + ((unsigned char)vars[3 * i]) % (nl - 3);        // 4..nl letters
            if (lr.noaccent) keep = (unsigned char)vars[3 * i + 1];
            bool lka = false; t[i] = variant(toks[i], L, keep, comp, "", &lka); if (t[i] != toks[i]) varied = true; if (lka && L < nl) any_d2 = true;
            auto A = accepted(r, lr, t[i]); if (A.size() != 1 || r.w[A[0]] != toks[i]) { ev.count("discard:mixed-variant-not-permitted-by-rule"); return ""; }
        }
        std::string sep = (c.u("ideosep") && le->name_en == "Japanese") ? "\xe3\x80\x80" : " ";
        lib::Image img; int st = lib::decode_x(lib::join(t, sep), coin, le->lang, &img);
        if (st != 0) return "phrase altered only in permitted ways (" + lib::join(t, sep) + ") decodes to " + model::status_name(st) + " in " + le->name_en;
        if (img != base_img) return "phrase altered only in permitted ways decodes to a different seed";
        const polyseed_lang* lo = nullptr; lib::Image ia; int sa = lib::decode_auto(lib::join(t, sep), coin, &lo, &ia);
        if (sa == 0 ? (lo != le->lang || ia != base_img) : sa != model::MULT_LANG) return "auto decode of a phrase altered only in permitted ways (" + lib::join(t, sep) + ") returns " + model::status_name(sa);
        ev.eval(); ev.count("mixed:" + le->name_en); if (any_d2) ev.count("class:prefix>=4-last-letter-keeps-accent"); if (varied) { ev.nt(c); ev.sample("mixed:" + le->name_en, c); } else ev.count("trivial");
        return "";
    }
    // word k shown at position 2 through the coin
    unsigned kidx = (unsigned)c.u("k") & 2047u; auto t0 = lib::tokens(lib::encode(s, le->lang, 0)); if (t0.size() != 16) return "phrase does not have 16 tokens";
    int c1 = -1; for (int i = 0; i < 2048; i++) if (lw.w[i] == t0[1]) { c1 = i; break; } if (c1 < 0) { ev.count("discard:word-not-in-table"); return ""; }
    unsigned coin = kidx ^ (unsigned)c1; auto toks = lib::tokens(lib::encode(s, le->lang, coin));
    if (toks.size() != 16 || toks[1] != lw.w[kidx]) { ev.count("discard:coin-placement-failed"); return ""; }
    const std::string& word = lw.w[kidx]; size_t nl = model::letters(word); unsigned nm_all = marks_in_prefix(word, nl);
    uint64_t n = 0; std::string cls;
    auto run_one = [&](size_t L, unsigned keep, bool comp, const std::string& suffix) -> std::string {
        bool lka = false; std::string tok = variant(word, L, keep, comp, suffix, &lka);
        std::string m = judge(*le, r, lr, toks, 1, tok, coin, base_img, word, &cls); n++;
        ev.count(cls); if (lka && L < nl && L >= 4 && suffix.empty()) ev.count("class:prefix>=4-last-letter-keeps-accent");
        if (L < nl && L >= 4 && suffix.empty()) ev.count("class:prefix>=4"); if (L < 4 && L < nl && suffix.empty()) ev.count("class:prefix<4");
        if (!suffix.empty()) ev.count("class:negative-suffix"); if (comp && tok != variant(word, L, keep, false, suffix)) ev.count("class:composed-form-differs");
        uint64_t fp = fnv1a(le->name_en + "/" + tok + "/" + word); if (tok != word) { ev.nontrivial++; ev.fps.insert(fp); }
        if (!m.empty()) { Case f = c; f.set("kind", "one"); f.set("L", (uint64_t)L); f.set("keep", keep); f.set("composed", comp ? 1 : 0); f.set("suffix", hex(suffix)); f.set("token", hex(tok)); if (lka && L < nl && lr.noaccent) f.set("signature", "C08:prefix-last-letter-keeps-accent"); record_failure(f, m, "fail"); }
        return m;
    };
    if (kind == "token") { std::string tok = c.bytes("token"); std::string m = judge(*le, r, lr, toks, 1, tok, coin, base_img, word, &cls); ev.eval(); return m; }
    if (kind == "one") { std::string m = run_one((size_t)c.u("L"), (unsigned)c.u("keep"), c.u("composed") != 0, c.bytes("suffix")); ev.eval(); return m; }
    for (size_t L = 1; L <= nl; L++) {
        unsigned nm = marks_in_prefix(word, L); unsigned combos = 1u << (nm > 5 ? 5 : nm);
        for (unsigned keep = 0; keep < combos; keep++) {
            unsigned km = keep | (nm > 5 ? ~31u : 0u);
            for (int comp = 0; comp < 2; comp++) {
                if (comp == 1 && nm == 0 && !(le->name_en == "Korean")) continue; // composed form identical for mark-free ASCII prefixes
                std::string m = run_one(L, km, comp, ""); if (!m.empty()) return m;
            }
        }
        // negative: prefix + a letter the word does not continue with; word + one more letter
        if (L >= 3 || L == nl) {
            auto cps = model::codepoints(model::strip_marks(word)); uint32_t nextc = L < cps.size() ? cps[L] : 0;
            for (const char* sfx : {"a", "x", "e", "z"}) { if (nextc == (uint32_t)sfx[0]) continue; std::string m = run_one(L, ~0u, false, sfx); if (!m.empty()) return m; }
        }
    }
    // decorated tokens: characters the word does not have.  Extra combining marks are "accents" (ignored in Spanish/French only);
    // other non-ASCII characters are tried in the languages that are not accent-blind (see DESIGN section 5 for es/fr).
    {
        auto run_tok = [&](const std::string& tok, const char* klass) -> std::string {
            std::string m = judge(*le, r, lr, toks, 1, tok, coin, base_img, word, &cls); n++; ev.count(cls); ev.count(klass);
            if (tok != word) { ev.nontrivial++; ev.fps.insert(fnv1a(le->name_en + "/" + tok + "/" + word)); }
            if (!m.empty()) { Case f = c; f.set("kind", "token"); f.set("token", hex(tok)); record_failure(f, m, "fail"); }
            return m;
        };
        auto cps = model::codepoints(word); std::vector<std::string> deco;
        for (uint32_t mark : {0x301u, 0x308u, 0x327u}) {
            { auto v = cps; v.insert(v.begin() + 1, mark); deco.push_back(model::utf8(v)); deco.push_back(model::nfc(model::utf8(v))); }                 // accent after the first letter
            { auto v = cps; v.push_back(mark); deco.push_back(model::utf8(v)); }                                                                              // accent after the last letter
            if (nl > 4) { std::string pre = variant(word, 4, ~0u, false, ""); deco.push_back(pre + model::utf8(mark)); deco.push_back(model::nfc(pre + model::utf8(mark))); }   // abbreviated + accent
        }
        for (auto& d : deco) { std::string m = run_tok(d, "class:decorated-with-combining-mark"); if (!m.empty()) return m; }
        if (lr.noaccent) { // accent-blind languages: whatever is done with foreign non-ASCII characters (DESIGN section 5), a token that goes on with a LETTER the word does not have is never that word
            std::string pre = nl > 4 ? variant(word, 4, ~0u, false, "") : word; auto wl = model::codepoints(model::strip_marks(word)); uint32_t nextc = wl.size() > 4 ? wl[4] : 0;
            for (const char* junk : {"\xe2\x80\x8b", "\xe7\x9a\x84", "\xc2\xb7", "\xf0\x9f\x98\x80", "\xe2\x80\x8b\xcc\x81"}) for (const char* wrong : {"x", "q"}) { if (nextc == (uint32_t)wrong[0]) continue;
                std::string m = run_tok(pre + junk + wrong, "class:foreign-character-then-wrong-letter"); if (!m.empty()) return m; }
        }
        if (lr.prefix) { // overlong tokens: a (possibly empty) prefix of the word followed by filler up to a byte length around 256 — lengths a narrow counter would wrap on
            for (size_t L : {(size_t)0, (size_t)1, (size_t)3, (size_t)4, (size_t)5, nl}) { if (L > nl) continue; std::string pre = variant(word, L, ~0u, false, "");
                for (size_t total : {(size_t)255 + pre.size(), (size_t)256 + pre.size(), (size_t)256, (size_t)257}) { if (total <= pre.size()) continue;
                    std::string m = run_tok(pre + std::string(total - pre.size(), 'x'), "class:overlong-token(~256 bytes)"); if (!m.empty()) return m; } }
            if (lr.noaccent) for (size_t marks : {(size_t)126, (size_t)128, (size_t)130}) { // accent-blind languages: the word (or its 4-letter abbreviation) followed by >= 252 bytes of combining accents is still that word
                for (const std::string& pre : {word, nl > 4 ? variant(word, 4, ~0u, false, "") : word}) { std::string tok = pre; for (size_t i = 0; i < marks; i++) tok += "\xcc\x81";
                    std::string m = run_tok(tok, "class:overlong-token(accents)"); if (!m.empty()) return m; } }
        }
        if (!lr.noaccent) {
            std::vector<std::string> foreign = {word + "\xe7\x9a\x84", "\xe2\x80\x8b" + word, word + "\xc2\xb7", "\xc3\x86" + word, (nl > 4 ? variant(word, 4, ~0u, false, "") : word) + "\xc3\xb8"};
            for (auto& d : foreign) { std::string m = run_tok(d, "class:decorated-with-foreign-character"); if (!m.empty()) return m; }
        }
    }
    (void)nm_all;
    s.reset();  
    ev.eval(n); ev.count("words:" + le->name_en); if ((kidx % 256) == 7) ev.sample("word:" + le->name_en, c);
    return "";
}

static void run() {
    setup(); Args& a = W().args; Evidence& ev = W().ev;
    // (i) exhaustive per word: every language x every word x every prefix length x accent subset x NFD/NFC
    uint64_t idx = 0, done = 0;
    for (size_t li = 0; li < REG->size(); li++) {
        bool zh = REG->at(li).name_en.rfind("Chinese", 0) == 0;
        for (unsigned kx = 0; kx < 2048; kx++) {
            if ((int)(idx++ % (uint64_t)a.nworkers) != a.worker) continue;
            if (zh && !a.thorough() && (kx % 8) != (a.seed % 8)) continue; // single-character words: every 8th in quick (linear search is slow), all in thorough
            SplitMix sm(mix64(a.seed * 131 + li)); std::vector<uint8_t> sec(19); for (auto& b : sec) b = (uint8_t)sm.next();
            Case c; c.set("kind", "word"); c.set("lang", REG->at(li).name_en); c.set("k", kx); c.set("secret", hex(sec)); c.set("birthday", sm.next() % 1024); c.set("ufeat", sm.next() % 8);
            set_current(c); std::string m = oracle(c); done++; if (!m.empty()) { if (W().failures == 0 && !enum_fail(c, m)) continue; return; }
        }
    }
    ev.enumerated["words (language x index), all prefix lengths x accent subsets x NFC/NFD x negative suffixes each"] += done;
    // (ii) phrases with all 16 tokens independently varied in permitted ways
    rc_run("c08-mixed", a.n(4000, 150000), 100, [&]() {
        Case c; c.set("kind", "mixed"); c.set("lang", REG->at(*g::lang_index()).name_en); c.set("secret", hex(*g::secret19())); c.set("birthday", (uint64_t)*g::birthday()); c.set("ufeat", *in_range<unsigned>(0, 8)); c.set("coin", (uint64_t)*g::coin());
        c.set("vars", hex(*vf::bytes(48))); c.set("ideosep", *in_range<unsigned>(0, 2));
        set_current(c); std::string m = oracle(c); if (!m.empty()) VF_FAIL(c, m);
    });
}
int main(int argc, char** argv) { return worker_main(argc, argv, "C08", Hooks{run, [](const Case& c) { setup(); return oracle(c); }}); }
