// C07 — word lists frozen, distinct, self-indexing (exhaustive against the sha256-pinned golden snapshot).
#include "gen.hpp"
#include <set>
using namespace vf;

static const lib::Registry* REG;
static void setup() { Case c; c.set("phase", "setup: polyseed_inject (debug self-test over all word lists)"); set_current(c); deps::inject(0); REG = &lib::Registry::get(); model::require_self_check(); }

// case: kind=place lang index pos(1..16) auto(0/1)
//       kind=static lang           (pairwise / normalisation clauses of one language)
//       kind=registry
static std::string place(const lib::LangEntry& le, unsigned index, int pos, bool also_auto, bool* nontrivial) {
    const model::Lang& gl = *le.golden; Evidence& ev = W().ev;
    // seed whose model coefficient for phrase word `pos` is `index` (other coefficients from a fixed pattern), coin chosen so word 2 reaches every index
    std::array<unsigned, 16> co{}; for (int i = 1; i < 16; i++) co[i] = (unsigned)((index * 7u + (unsigned)i * 131u + (unsigned)pos * 29u) & 2047u);
    co[2] &= ~1u; unsigned coin = (index * 13u + 5u) & 2047u;
    bool decode_only = false;
    if (pos >= 2) { co[pos - 1] = (pos == 2) ? (index ^ coin) : index; if (pos == 3 && (index & 1u)) decode_only = true; }
    model::Seed ms = model::unpack(co); if (!decode_only) co = model::pack(ms); else co[0] = model::check_value(co);
    if (pos == 1) { // the check word: search the free coefficient (word 16) until the check value equals `index`
        // check = sum c_i 2^i ; changing c_15 by d changes the check by d*2^15: solve d = (index ^ cur) * 2^-15; do it by table
        static std::vector<unsigned> inv; if (inv.empty()) { inv.resize(2048); for (unsigned d = 0; d < 2048; d++) inv[model::gf_mulx(d, 15)] = d; }
        unsigned cur = model::check_value(co); co[15] ^= inv[index ^ cur]; co[15] &= 2047u; ms = model::unpack(co); co = model::pack(ms);
        if (co[0] != index) return "internal: could not place index in the check word";
    }
    std::array<unsigned, 16> shown = co; shown[1] ^= coin;
    if (shown[pos - 1] != index) return "internal: placement failed";
    std::string gphrase = model::phrase_from_coeffs(gl, shown);
    *nontrivial = true;
    if (!decode_only) {
        lib::SeedPtr s; int st = lib::load_model(ms, s.out());
        if (st != 0) { s.p = nullptr; ev.count("discard:load-construct-failed"); return ""; }
        std::string got = lib::encode(s, le.lang, coin); auto t = lib::tokens(got);
        if (t.size() != 16) return "phrase does not have 16 tokens";
        if (t[pos - 1] != gl.words[index]) return "language " + le.name_en + ": word emitted for index " + std::to_string(index) + " at position " + std::to_string(pos) + " is '" + t[pos - 1] + "' (" + hex(t[pos - 1]) + "), published list has '" + gl.words[index] + "' (" + hex(gl.words[index]) + ")";
        lib::Image want = lib::store(s), img;
        int sd = lib::decode_x(gphrase, coin, le.lang, &img);
        if (sd != 0) return "language " + le.name_en + ": phrase built from the published words (index " + std::to_string(index) + " at position " + std::to_string(pos) + ") decodes to " + model::status_name(sd);
        if (img != want) return "language " + le.name_en + ": published word '" + gl.words[index] + "' typed in full at position " + std::to_string(pos) + " is not recognised as index " + std::to_string(index);
        if (also_auto) { const polyseed_lang* lo = nullptr; lib::Image ia; int sa = lib::decode_auto(gphrase, coin, &lo, &ia); if (sa == 0 ? (lo != le.lang || ia != want) : sa != model::MULT_LANG) return "language " + le.name_en + ": auto decode of the published-word phrase gives " + model::status_name(sa); }
    } else {
        int sd = lib::decode_x(gphrase, coin, le.lang);
        if (sd != model::UNSUPPORTED) return "language " + le.name_en + ": odd index " + std::to_string(index) + " in word 3 (reserved feature bit) must decode to UNSUPPORTED, got " + model::status_name(sd);
        ev.count("decode-only(word3 odd)");
    }
    return "";
}

static std::string static_clauses(const lib::LangEntry& le) {
    const model::Lang& gl = *le.golden; Evidence& ev = W().ev;
    std::set<std::string> seen;
    for (int i = 0; i < 2048; i++) {
        const std::string& w = gl.words[i];
        if (!seen.insert(w).second) return le.name_en + ": duplicate word '" + w + "'";
        if (model::nfkd(w) != w) return le.name_en + ": word " + std::to_string(i) + " is not NFKD-normalised";
        if (model::nfkd(model::nfc(w)) != w) return le.name_en + ": word " + std::to_string(i) + " is not stable under NFC followed by NFKD";
    }
    if (model::nfkd(gl.sep) != " ") return le.name_en + ": separator does not normalise to one ASCII space";
    uint64_t shortpairs = 0;
    if (gl.prefix) {
        std::map<std::string, int> four; std::vector<std::string> stripped(2048);
        for (int i = 0; i < 2048; i++) stripped[i] = model::strip_marks(gl.words[i]);
        for (int i = 0; i < 2048; i++) {
            auto cps = model::codepoints(stripped[i]); if (cps.size() < 4) continue; cps.resize(4); std::string k4 = model::utf8(cps);
            if (four.count(k4)) return le.name_en + ": '" + gl.words[i] + "' and '" + gl.words[four[k4]] + "' share their first four accent-stripped letters";
            four[k4] = i;
        }
        for (int i = 0; i < 2048; i++) for (int j = 0; j < 2048; j++) {
            if (i == j) continue; const std::string &a = stripped[i], &b = stripped[j];
            if (b.size() > a.size() && b.compare(0, a.size(), a) == 0) { if (model::codepoints(a).size() >= 4) return le.name_en + ": word '" + gl.words[i] + "' (>= 4 letters) is a prefix of '" + gl.words[j] + "'"; shortpairs++; }
        }
    }
    ev.count("info:short-word-prefix-pairs:" + le.name_en, shortpairs);
    // the library's own view of the same list (LibWords, model-free) must be the published list, index by index
    const lib::LibWords& lw = lib::lib_words(le);
    if (!lw.ok) return le.name_en + ": library word table is not self-consistent: " + lw.why;
    for (int i = 0; i < 2048; i++) if (lw.w[i] != gl.words[i]) return le.name_en + ": index " + std::to_string(i) + " is '" + lw.w[i] + "' in the library, '" + gl.words[i] + "' in the published list";
    // a phrase built from the list is stable under NFC followed by NFKD (whole-phrase, including the separator)
    for (int i = 0; i < 2048; i += 16) { std::string ph; for (int j = 0; j < 16; j++) { if (j) ph += gl.sep; ph += gl.words[i + j]; } if (model::nfkd(model::nfc(ph)) != model::nfkd(ph)) return le.name_en + ": phrase of words " + std::to_string(i) + ".. not stable under NFC then NFKD"; }
    return "";
}

static std::string oracle(const Case& c) {
    deps::Kit& k = deps::kit(0); k.reset_all(); Evidence& ev = W().ev; polyseed_enable_features(7);
    std::string kind = c.get("kind");
    if (kind == "registry") {
        const model::Golden& g = model::Golden::get();
        for (auto& gl : g.langs) { const lib::LangEntry* le = REG->by_name(gl.name_en); if (!le) return "published language '" + gl.name_en + "' is missing from the registry"; if (le->name != gl.name) return "native name of " + gl.name_en + " changed: '" + le->name + "'"; }
        if (polyseed_get_num_langs() < 10) return "fewer than ten languages registered";
        std::set<std::string> names; for (auto& e : REG->langs) if (!names.insert(e.name_en).second) return "language registered twice: " + e.name_en;
        ev.eval(); ev.count("registry"); return "";
    }
    const lib::LangEntry* le = REG->by_name(c.get("lang")); if (!le) return "published language '" + c.get("lang") + "' is missing from the registry";
    if (!le->golden) return "";
    if (kind == "static") { std::string m = static_clauses(*le); if (!m.empty()) return m; ev.eval(); ev.nt(c); ev.count("static:" + le->name_en); ev.sample("static", c); return ""; }
    bool nt = false; std::string m = place(*le, (unsigned)c.u("index") & 2047u, (int)c.u("pos"), c.u("auto") != 0, &nt); if (!m.empty()) return m;
     
    ev.eval(); if (nt) ev.nt(c); ev.count("lang:" + le->name_en); if ((c.u("index") % 512) == 0 && c.u("pos") == 5) ev.sample("place:" + le->name_en, c);
    return "";
}

static void run() {
    setup(); Args& a = W().args; Evidence& ev = W().ev; const model::Golden& g = model::Golden::get();
    if (a.worker == 0) { Case c; c.set("kind", "registry"); set_current(c); std::string m = oracle(c); if (!m.empty() && enum_fail(c, m)) return; }
    for (size_t li = 0; li < g.langs.size(); li++) if ((int)(li % (size_t)a.nworkers) == a.worker) { Case c; c.set("kind", "static"); c.set("lang", g.langs[li].name_en); set_current(c); std::string m = oracle(c); if (!m.empty() && enum_fail(c, m)) return; }
    // exhaustive placements: language x index x position.  Chinese decodes are ~50x slower, so the unit of sharding is (lang, index).
    uint64_t idx = 0, done = 0; bool with_auto = true;
    for (int pos = 1; pos <= 16; pos++) for (size_t li = 0; li < g.langs.size(); li++) for (unsigned index = 0; index < 2048; index++) {
        if ((int)(idx++ % (uint64_t)a.nworkers) != a.worker) continue;
        Case c; c.set("kind", "place"); c.set("lang", g.langs[li].name_en); c.set("index", index); c.set("pos", (uint64_t)pos); c.set("auto", with_auto && g.langs[li].name_en.rfind("Chinese", 0) != 0 ? 1 : (a.thorough() ? 1 : 0));
        set_current(c); std::string m = oracle(c); done++; if (!m.empty() && enum_fail(c, m)) return;
    }
    ev.enumerated["placements language x index x position (10 x 2048 x 16) [this worker's shard]"] += done;
}

int main(int argc, char** argv) { return worker_main(argc, argv, "C07", Hooks{run, [](const Case& c) { setup(); return oracle(c); }}); }
