// C13 — any sequence of API calls behaves like a simple abstract seed model (stateful, model-based).
#include "seqgen.hpp"
#include "wrap.hpp"
using namespace vf;

static std::string oracle(const Case& c) {
    Evidence& ev = W().ev; std::vector<ops::Op> seq = ops::from_hex(c.get("ops"));
    ops::Machine m; m.fl.allow_inject = c.u("inject", 1) != 0; m.fl.strict_rand19 = false; m.fl.check_statics = true;
#ifdef VERIF_WRAP
    deps::wrap().enabled = true;   /* --wrap build: libc time/malloc/free are interposed (absent optional entries are modelled) and the process environment is a generated input */
#endif
    m.start(m.fl.allow_inject);
    model::Golden::get();
    std::string r = m.run(seq); if (!r.empty()) return r + "   sequence: " + ops::describe(seq);
    bool nt = m.saw_crypt_then_use || m.max_live >= 2 || m.saw_reinject || m.saw_failed_ctor;
    ev.eval(); ev.count("ops-executed", seq.size()); for (auto& p : m.cls) ev.count(p.first, p.second);
    if (m.saw_crypt_then_use) ev.count("seq:crypt-then-encode/store"); if (m.max_live >= 2) ev.count("seq:>=2-live-seeds"); if (m.saw_reinject) ev.count("seq:re-injection"); if (m.saw_failed_ctor) ev.count("seq:failed-constructor"); if (m.saw_alloc_fail) ev.count("seq:allocation-failure-observed"); if (vf::static_guard().bytes()) ev.count("library-static-storage-watched(bytes)", 0), ev.classes["library-static-storage-watched(bytes)"] = vf::static_guard().bytes();
    if (nt) { ev.nt(c); { Case sc = c; sc.set("described", ops::describe(seq).substr(0, 600)); ev.sample(c.get("gen", "seq"), sc); } } else ev.count("trivial");
    return "";
}

static void run() {
    Args& a = W().args; { Case c; c.set("phase", "setup"); set_current(c); deps::inject(0); model::require_self_check(); }
    bool inject_ok = true; bool debug_inject = a.variant == "asan";   // with assertions on, polyseed_inject self-tests 20480 words (8 ms): re-inject rarely there, often in the NDEBUG variants
    // exhaustive: all sequences of length <= 5 over 9 fixed-argument operations
    if (a.part.empty() || a.part == "exhaustive") {
        const ops::Op A[9] = {{ops::CREATE, 0, 0, 3}, {ops::CREATE, 1, 1, 9}, {ops::ENABLE, 1, 0, 0}, {ops::CRYPT, 0, 1, 0}, {ops::LOAD, 0, 1, 0}, {ops::DECODE, 4, 3, 0}, {ops::ENCODE, 0, 4, 17}, {ops::FREE, 0, 0, 0}, {ops::ARM_FAIL, 1, 0, 0}};
        uint64_t idx = 0, done = 0; int maxlen = a.thorough() ? 5 : 5;
        for (int len = 1; len <= maxlen; len++) { uint64_t total = 1; for (int i = 0; i < len; i++) total *= 9;
            for (uint64_t code = 0; code < total; code++) {
                if ((int)(idx++ % (uint64_t)a.nworkers) != a.worker) continue;
                std::vector<ops::Op> seq; uint64_t x = code; for (int i = 0; i < len; i++) { seq.push_back(A[x % 9]); x /= 9; }
                Case c; c.set("ops", ops::to_hex(seq)); c.set("inject", 0); c.set("gen", "exhaustive<=5"); set_current(c);
                std::string m = oracle(c); done++; if (!m.empty() && enum_fail(c, m)) return;
            } }
        W().ev.enumerated["all sequences of length <= 5 over 9 fixed-argument operations (66429)"] += done;
    }
    seqgen::Weights wt{{debug_inject ? 1 : 4, 4, 10, 8, 8, 8, 8, 8, 4, 4, 4, 5, 1, 3}};
    rc_run("c13-sequences", debug_inject ? a.n(1500, 20000) : a.n(25000, 150000), 100, [&]() {
        int maxlen = *rc::gen::element(8, 20, 60, a.thorough() ? 200 : 60);
        auto seq = *seqgen::sequence(wt, maxlen);
        Case c; c.set("ops", ops::to_hex(seq)); c.set("inject", inject_ok ? 1 : 0); c.set("gen", "random-walk"); set_current(c);
        std::string m = oracle(c); if (!m.empty()) VF_FAIL(c, m);
    });
}
int main(int argc, char** argv) { return worker_main(argc, argv, "C13", Hooks{run, [](const Case& c) { deps::inject(0); return oracle(c); }}); }
