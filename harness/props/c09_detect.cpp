// C09 — language auto-detection never guesses and agrees with explicit decoding (rapidcheck part;
// the libFuzzer target fuzz/fuzz_api.cpp applies the same oracle to coverage-guided inputs).
#include "gen.hpp"
#include "decode_oracle.hpp"
using namespace vf;

static const lib::Registry* REG;
static void setup() { Case c; c.set("phase", "setup"); set_current(c); deps::inject(0); REG = &lib::Registry::get(); }

// tokens recognised by a language, established through the library itself: a phrase of 16 x token
// is answered LANG iff the token is unknown to that language
static bool recognised(const lib::LangEntry& le, const std::string& tok) {
    static std::map<std::pair<const polyseed_lang*, std::string>, bool> cache; auto key = std::make_pair(le.lang, tok); auto it = cache.find(key); if (it != cache.end()) return it->second;
    std::vector<std::string> t(16, tok); int st = lib::decode_x(lib::join(t), 0, le.lang); bool r = st != model::LANG && st != model::NUM_WORDS; if (cache.size() < 400000) cache[key] = r; return r;
}
// index of a token in a language's table (word it equals or abbreviates), -1 if none/ambiguous — used only to aim the check word
static int index_of(const lib::LibWords& lw, const std::string& tok) { int f = -1; for (int i = 0; i < 2048; i++) if (lw.w[i].compare(0, tok.size(), tok) == 0 && (lw.w[i].size() == tok.size() || tok.size() >= 4)) { if (f >= 0) return -1; f = i; } return f; }

struct Shared { std::vector<std::string> toks; };
static const Shared& shared_tokens(const lib::LangEntry& a, const lib::LangEntry& b) {
    static std::map<std::pair<const polyseed_lang*, const polyseed_lang*>, Shared> cache; auto key = std::make_pair(a.lang, b.lang); auto it = cache.find(key); if (it != cache.end()) return it->second;
    Shared s; const lib::LibWords& lw = lib::lib_words(a);
    if (lw.ok) for (int i = 0; i < 2048; i++) {
        std::string full = model::strip_marks(lw.w[i]); if (full != lw.w[i] && a.name_en != "Spanish" && a.name_en != "French") full = lw.w[i];
        std::vector<std::string> cands = {lw.w[i]}; auto cps = model::codepoints(full); if (cps.size() > 4) { cps.resize(4); cands.push_back(model::utf8(cps)); }
        for (auto& t : cands) if (recognised(a, t) && recognised(b, t)) s.toks.push_back(t);
    }
    return cache[key] = s;
}

// words of `a` that `b` does not recognise although it recognises their 4-letter abbreviation: placed right after that abbreviation they make a phrase
// that only `a` recognises, while a decoder that remembers "the same token as before" across tokens would still pass it in `b`
static const std::vector<std::pair<std::string, std::string>>& stutter_words(const lib::LangEntry& a, const lib::LangEntry& b) {
    static std::map<std::pair<const polyseed_lang*, const polyseed_lang*>, std::vector<std::pair<std::string, std::string>>> cache; auto key = std::make_pair(a.lang, b.lang); auto it = cache.find(key); if (it != cache.end()) return it->second;
    std::vector<std::pair<std::string, std::string>> v; const lib::LibWords& lw = lib::lib_words(a);
    if (lw.ok) for (int i = 0; i < 2048; i++) { auto cps = model::codepoints(model::strip_marks(lw.w[i])); if (cps.size() <= 4) continue; cps.resize(4); std::string stem = model::utf8(cps);
        if (recognised(a, stem) && recognised(b, stem) && recognised(a, lw.w[i]) && !recognised(b, lw.w[i])) v.emplace_back(stem, lw.w[i]); }
    return cache[key] = v;
}

// case: s(hex) coin allocfail(0/1) gen
static std::string oracle(const Case& c) {
    deps::Kit& k = deps::kit(0); k.reset_all(); Evidence& ev = W().ev; polyseed_enable_features((unsigned)c.u("mask", 7));
    k.lenient = c.u("lenient") != 0;
    // optional prelude: a run of successful automatic decodes of valid phrases of one language immediately before the string under
    // test (a detector that learns from earlier calls must still never guess)
    if (c.u("prelude")) { const lib::LangEntry* pl = REG->by_name(c.get("plang")); if (pl) for (uint64_t i = 0; i < c.u("prelude"); i++) {
        std::vector<uint8_t> sec(19); for (int j = 0; j < 19; j++) sec[j] = (uint8_t)(i * 29 + j * 7 + 3); model::Seed want = g::to_seed(sec, (int)(i * 13 % 1024), 0); std::string e2; lib::SeedPtr ps(g::build_by_create(want, 7, 0, &e2)); if (!ps.p) break;
        std::string ph = lib::encode(ps, pl->lang, (unsigned)i); const polyseed_lang* lo = nullptr; int st = lib::decode_auto(ph, (unsigned)i, &lo); if (st != model::OK && st != model::MULT_LANG) return std::string("prelude: a valid ") + pl->name_en + " phrase decodes to " + model::status_name(st); }
        polyseed_enable_features((unsigned)c.u("mask", 7)); k.reset_logs(); ev.count("with-prelude-of-same-language-decodes"); }
    dor::Result r; std::string m = dor::check(c.bytes("s"), (unsigned)c.u("coin") & 2047u, c.u("allocfail") != 0, &r);
    if (!m.empty()) return m;
    bool nt = r.R >= 1 || (r.tokens >= 15 && r.tokens <= 17);
    ev.eval(); ev.count(r.cls); ev.count("gen:" + c.get("gen", "?")); if (c.u("allocfail")) ev.count("with-allocation-failure");
    if (r.tokens >= 0) ev.count(r.tokens == 16 ? "tokens:16" : r.tokens == 15 ? "tokens:15" : r.tokens == 17 ? "tokens:17" : "tokens:other");
    if (r.R >= 3) ev.count("R>=3"); if (r.R >= 2) { bool diff = false; int first = -2; for (int e : r.E) if (e != model::LANG && e != model::NUM_WORDS) { if (first == -2) first = e; else if (e != first) diff = true; } if (diff) ev.count("R>=2 with differing checksum verdicts"); }
    if (nt) { ev.nt(c); ev.sample(r.cls, c); } else ev.count("trivial");
    return "";
}

static std::string lib_phrase(const std::vector<uint8_t>& sec, int bd, unsigned uf, unsigned enc, unsigned coin, const lib::LangEntry& le) {
    model::Seed want = g::to_seed(sec, bd, uf | (enc << 4)); std::string err; lib::SeedPtr s(g::build_by_create(want, 7, 0, &err)); if (!s.p) return "";
    return lib::encode(s, le.lang, coin);
}

static void run() {
    setup(); Args& a = W().args;
    // (1) mutated library phrases
    rc_run("c09-mutations", a.n(5000, 150000), 100, [&]() {
        const lib::LangEntry& le = REG->at(*g::lang_index()); unsigned coin = (unsigned)*g::coin();
        std::string ph = lib_phrase(*g::secret19(), *g::birthday(), *in_range<unsigned>(0, 8), *in_range<unsigned>(0, 2), coin, le); RC_PRE(!ph.empty());
        auto t = lib::tokens(ph); if (*in_range<int>(0, 2)) { std::vector<std::string> comp; for (auto& x : t) comp.push_back(model::nfc(x)); t = comp; }
        int nmut = *in_range<int>(0, 4); std::vector<std::string> seps(15, " "); std::string lead, trail; std::string gn = "valid";
        for (int i = 0; i < nmut; i++) {
            int op = *in_range<int>(0, 15); size_t p = *in_range<size_t>(0, t.size() ? t.size() : 1);
            switch (op) {
            case 0: if (p < seps.size()) seps[p] = "  "; gn = "sep-doubled"; break;
            case 1: lead = *rc::gen::element<std::string>(" ", "  ", "\xe3\x80\x80", "\xc2\xa0"); gn = "leading-sep"; break;
            case 2: trail = *rc::gen::element<std::string>(" ", "  ", "\xe3\x80\x80", " \xe3\x80\x80", "\xc2\xa0", "\n"); gn = "trailing-sep"; break;
            case 3: if (p < seps.size()) seps[p] = *rc::gen::element<std::string>("\xe3\x80\x80", "\xc2\xa0", "\t", "\xe2\x80\x83", "", "\xe2\x80\x8b"); gn = "sep-replaced"; break;
            case 4: if (!t.empty()) { t.erase(t.begin() + (long)p); if (!seps.empty()) seps.pop_back(); } gn = "token-deleted"; break;
            case 5: if (!t.empty()) { t.insert(t.begin() + (long)p, t[p]); seps.push_back(" "); } gn = "token-duplicated"; break;
            case 6: if (!t.empty()) { const lib::LangEntry& o = REG->at(*g::lang_index()); const lib::LibWords& lw = lib::lib_words(o); if (lw.ok) t[p] = lw.w[*in_range<int>(0, 2048)]; } gn = "token-from-other-language"; break;
            case 7: if (!t.empty()) t[p] = ""; gn = "token-emptied"; break;
            case 8: t.push_back(t.empty() ? "x" : t[p % t.size()]); seps.push_back(" "); gn = "17th-token"; break;
            case 9: if (!t.empty()) { auto cps = model::codepoints(model::strip_marks(t[p])); if (cps.size() > 4) { cps.resize(4 + *in_range<size_t>(0, cps.size() - 4)); t[p] = model::utf8(cps); } } gn = "token-abbreviated"; break;
            case 10: if (!t.empty()) t[p] += *rc::gen::element<std::string>("x", "\xcc\x81", "s", "\xe3\x82\x99"); gn = "token-suffixed"; break;
            case 11: if (!t.empty() && t.size() > 1) std::swap(t[p], t[(p + 1) % t.size()]); gn = "tokens-swapped"; break;
            case 12: coin = (coin ^ (1u << *in_range<int>(0, 11))) & 2047u; gn = "other-coin"; break;
            case 13: if (!t.empty()) { const lib::LibWords& lw = lib::lib_words(le); if (lw.ok) t[p] = lw.w[*in_range<int>(0, 2048)]; } gn = "token-substituted"; break;
            case 14: if (!t.empty()) { size_t q = *in_range<int>(0, 2) ? 0 : p % t.size(); t[q] = *rc::gen::element<std::string>("\xef\xbb\xbf", "\xe2\x80\x8b", "\xcc\x81", "\xe2\x81\xa0", "\xc2\xb7", "\xe7\x9a\x84") + t[q]; } gn = "token-prefixed-nonascii"; break;
            }
        }
        std::string s = lead; for (size_t i = 0; i < t.size(); i++) { if (i) s += seps[(i - 1) % seps.size()]; s += t[i]; } s += trail;
        Case c; c.set("s", hex(s)); c.set("coin", coin); c.set("allocfail", *in_range<unsigned>(0, 2)); c.set("gen", gn); c.set("mask", *rc::gen::element<unsigned>(7, 7, 0, 3)); c.set("lenient", *in_range<unsigned>(0, 2));
        set_current(c); std::string m = oracle(c); if (!m.empty()) VF_FAIL(c, m);
    });
    // (2) ambiguity builders: all 16 tokens accepted by two languages; check word aimed at the first, the second or neither
    rc_run("c09-ambiguous", a.n(1500, 40000), 100, [&]() {
        // one case in five asks for three languages at once (the verdict must not depend on the parity or number of matching languages)
        static const char* triples[][3] = {{"English", "French", "Italian"}, {"Spanish", "Portuguese", "Italian"}, {"Spanish", "French", "Italian"}, {"English", "French", "Spanish"}, {"French", "Portuguese", "Spanish"}, {"English", "Italian", "Portuguese"}};
        int tri = *in_range<int>(0, 5) == 0 ? *in_range<int>(0, (int)(sizeof triples / sizeof triples[0])) : -1;
        static const char* pairs[][2] = {{"Chinese (Simplified)", "Chinese (Traditional)"}, {"Chinese (Traditional)", "Chinese (Simplified)"}, {"Spanish", "Portuguese"}, {"English", "French"}, {"French", "English"}, {"Italian", "Spanish"}, {"Portuguese", "Spanish"}, {"French", "Italian"}, {"English", "Czech"}, {"Spanish", "French"}, {"Italian", "Portuguese"}};
        int pi = *in_range<int>(0, (int)(sizeof pairs / sizeof pairs[0])); const lib::LangEntry* A = REG->by_name(tri >= 0 ? triples[tri][0] : pairs[pi][0]); const lib::LangEntry* B = REG->by_name(tri >= 0 ? triples[tri][1] : pairs[pi][1]); RC_PRE(A && B);
        const lib::LangEntry* C3 = tri >= 0 ? REG->by_name(triples[tri][2]) : nullptr; RC_PRE(tri < 0 || C3);
        const Shared& sh2 = shared_tokens(*A, *B); Shared sh3; if (C3) { for (auto& t : sh2.toks) if (recognised(*C3, t)) sh3.toks.push_back(t); } const Shared& sh = C3 ? sh3 : sh2; RC_PRE(sh.toks.size() >= 24);
        const lib::LibWords& lwa = lib::lib_words(*A); const lib::LibWords& lwb = lib::lib_words(*B); RC_PRE(lwa.ok && lwb.ok);
        int aim = *in_range<int>(0, 3); unsigned coin = (unsigned)*g::coin(); std::vector<std::string> t(16);
        // partial overlap: only the first `nshared` tokens are shared, the rest belong to the second language alone - every list must still be tried to the end
        int nshared = (tri < 0 && *in_range<int>(0, 3) == 0) ? *rc::gen::element(11, 12, 13, 14, 15) : 16; if (nshared < 16) aim = 1;
        for (int tries = 0; tries < 40; tries++) {
            for (int i = 1; i < 16; i++) t[i] = (i < nshared) ? sh.toks[*in_range<size_t>(0, sh.toks.size())] : lwb.w[*in_range<int>(0, 2048)];
            if (aim == 2) { t[0] = sh.toks[*in_range<size_t>(0, sh.toks.size())]; break; }
            const lib::LibWords& lw = aim == 0 ? lwa : lwb; std::array<unsigned, 16> co{}; bool ok = true;
            for (int i = 1; i < 16; i++) { int ix = index_of(lw, model::nfkd(t[i])); if (ix < 0) { ok = false; break; } co[i] = (unsigned)ix; }
            if (!ok) continue; co[1] ^= coin; unsigned c0 = model::check_value(co); // aim only: a wrong aim just lands in another class
            std::string w = lw.w[c0]; std::string stem; { auto cps = model::codepoints(model::strip_marks(w)); if (cps.size() > 4) { cps.resize(4); stem = model::utf8(cps); } }
            if (nshared < 16 && aim == 1) { std::string st4 = stem.empty() ? w : stem; if (recognised(*A, st4)) { t[0] = st4; break; } if (tries > 30) { t[0] = w; break; } t[0].clear(); continue; }   /* first word shared if possible */
            if (recognised(*A, w) && recognised(*B, w) && (!C3 || recognised(*C3, w))) { t[0] = w; break; } if (!stem.empty() && recognised(*A, stem) && recognised(*B, stem) && (!C3 || recognised(*C3, stem)) && index_of(lw, stem) == (int)c0) { t[0] = stem; break; }
            t[0].clear();
        }
        RC_PRE(!t[0].empty());
        bool stutter = false;
        if (!C3 && nshared == 16 && *in_range<int>(0, 3) == 0) { bool ab = *in_range<int>(0, 2) == 0; const auto& sw = ab ? stutter_words(*A, *B) : stutter_words(*B, *A);
            if (!sw.empty()) { const auto& pr = sw[*in_range<size_t>(0, sw.size())]; int i = *in_range<int>(1, 16); t[i - 1] = pr.first; t[i] = pr.second; stutter = true; } }   /* abbreviation, then the word written out: now only one language recognises the phrase */
        Case c; c.set("s", hex(lib::join(t))); c.set("coin", coin); c.set("allocfail", *in_range<unsigned>(0, 2)); if (*in_range<int>(0, 2)) { c.set("prelude", *in_range<unsigned>(1, 8)); c.set("plang", (*in_range<int>(0, 2) ? A : B)->name_en); }
        c.set("gen", std::string(stutter ? "shared-but-one-word-after-its-abbreviation:" : C3 ? "ambiguous-3-languages:" : nshared < 16 ? "first-words-shared-rest-second-language:" : "ambiguous:") + (aim == 0 ? "valid-in-first" : aim == 1 ? "valid-in-second" : "unaimed")); c.set("mask", 7);
        set_current(c); std::string m = oracle(c); if (!m.empty()) VF_FAIL(c, m);
    });
    // (3) arbitrary text: Unicode scalar values, raw bytes, word soup with 14-18 tokens
    rc_run("c09-arbitrary", a.n(3000, 80000), 100, [&]() {
        int kind = *in_range<int>(0, 3); std::string s, gn;
        if (kind == 0) { gn = "unicode-scalars"; auto v = *rc::gen::container<std::vector<uint32_t>>(rc::gen::weightedOneOf<uint32_t>({{4, rc::gen::inRange<uint32_t>(0x20, 0x7F)}, {2, rc::gen::just<uint32_t>(0x20)}, {2, rc::gen::inRange<uint32_t>(0xA0, 0x3100)}, {1, rc::gen::inRange<uint32_t>(0xAC00, 0xD7A4)}, {1, rc::gen::inRange<uint32_t>(0x10000, 0x20000)}})); for (auto& x : v) if (x >= 0xD800 && x < 0xE000) x = 0x20; s = model::utf8(v); }
        else if (kind == 1) { gn = "raw-bytes"; auto v = *rc::gen::container<std::vector<uint8_t>>(rc::gen::arbitrary<uint8_t>()); s.assign(v.begin(), v.end()); }
        else { gn = "word-soup"; int n = *in_range<int>(13, 19); for (int i = 0; i < n; i++) { const lib::LibWords& lw = lib::lib_words(REG->at(*g::lang_index())); if (i) s += *rc::gen::weightedOneOf<std::string>({{8, rc::gen::just(std::string(" "))}, {1, rc::gen::just(std::string("  "))}, {1, rc::gen::just(std::string("\xe3\x80\x80"))}}); if (lw.ok) s += lw.w[*in_range<int>(0, 2048)]; } }
        Case c; c.set("s", hex(s)); c.set("coin", (uint64_t)*g::coin()); c.set("allocfail", *in_range<unsigned>(0, 2)); c.set("gen", gn); c.set("lenient", *in_range<unsigned>(0, 2));
        set_current(c); std::string m = oracle(c); if (!m.empty()) VF_FAIL(c, m);
    });
}
int main(int argc, char** argv) { return worker_main(argc, argv, "C09", Hooks{run, [](const Case& c) { setup(); return oracle(c); }}); }
