// C14 — arbitrary phrases, passwords and buffers are handled safely and totally (rapidcheck grammar part;
// the libFuzzer target fuzz/fuzz_api.cpp is the coverage-guided part).  Only safety/totality is judged
// here: sanitizer silence, documented status range, input immutability, allocator ledger.
#include "gen.hpp"
#include "decode_oracle.hpp"
#include <sys/mman.h>
using namespace vf;

static const lib::Registry* REG;
static void setup() { Case c; c.set("phase", "setup"); set_current(c); deps::inject(0); REG = &lib::Registry::get(); }

// A NUL-terminated ASCII string of `total` bytes that costs 4 MiB of memory: one 2 MiB shared block mapped over and over,
// followed by a private block that carries the terminator ("any length" includes lengths beyond INT_MAX and UINT_MAX).
static char* giant_string(size_t total, char fill) {
    const size_t B = 2u << 20; int fd = memfd_create("giant", 0); if (fd < 0 || ftruncate(fd, (off_t)B) != 0) return nullptr;
    char* one = (char*)mmap(nullptr, B, PROT_READ | PROT_WRITE, MAP_SHARED, fd, 0); if (one == MAP_FAILED) return nullptr; memset(one, fill, B); munmap(one, B);
    size_t full = total / B, rest = total % B; char* base = (char*)mmap(nullptr, (full + 1) * B, PROT_NONE, MAP_PRIVATE | MAP_ANONYMOUS | MAP_NORESERVE, -1, 0); if (base == MAP_FAILED) return nullptr;
    for (size_t i = 0; i < full; i++) if (mmap(base + i * B, B, PROT_READ, MAP_SHARED | MAP_FIXED, fd, 0) == MAP_FAILED) return nullptr;
    char* last = (char*)mmap(base + full * B, B, PROT_READ | PROT_WRITE, MAP_PRIVATE | MAP_ANONYMOUS | MAP_FIXED, -1, 0); if (last == MAP_FAILED) return nullptr; memset(last, fill, rest); last[rest] = 0;
    close(fd); return base;
}
// case: kind=phrase s coin lenient allocfail | kind=password s | kind=load buf allocfail | kind=giant len
static std::string oracle(const Case& c) {
    deps::Kit& k = deps::kit(0); k.reset_all(); Evidence& ev = W().ev; polyseed_enable_features((unsigned)c.u("mask", 7)); k.lenient = c.u("lenient") != 0;
    std::string kind = c.get("kind", "phrase"); std::string s = c.bytes("s"); s = s.substr(0, s.find('\0'));
    bool nonascii = false; for (unsigned char ch : s) if (ch >= 0x80) nonascii = true;
    bool near = s.size() + 8 >= POLYSEED_STR_SIZE && s.size() <= POLYSEED_STR_SIZE + 8; std::string nf = model::valid_utf8(s) ? model::nfkd(s) : s; bool near_n = nf.size() + 8 >= POLYSEED_STR_SIZE && nf.size() <= POLYSEED_STR_SIZE + 8;
    if (kind == "giant") { // an enormous ASCII input: every entry point must treat it like any other over-long string (only its head can matter)
        size_t total = (size_t)c.u("len"); char* g = giant_string(total, 'a'); if (!g) { ev.count("discard:giant-string-not-mappable"); return ""; }
        polyseed_data* sd = nullptr; const polyseed_lang* lo = nullptr; int st = polyseed_decode(g, (polyseed_coin)0, &lo, &sd); if (st == 0) polyseed_free(sd);
        if (st != model::NUM_WORDS) return "decode of a " + std::to_string(total) + "-byte string without any separator returned " + model::status_name(st) + " instead of NUM_WORDS";
        st = polyseed_decode_explicit(g, (polyseed_coin)0, REG->at(0).lang, &sd); if (st == 0) polyseed_free(sd); if (st != model::NUM_WORDS) return std::string("decode_explicit of a giant string returned ") + model::status_name(st);
        k.rand_bytes.assign(19, 0x21); polyseed_data* s1 = nullptr; if (polyseed_create(0, &s1) != 0) return "create failed"; k.kdf.clear(); polyseed_crypt(s1, g);
        std::string m; if (k.kdf.size() != 1 || k.kdf[0].pwlen > POLYSEED_STR_SIZE - 1) m = "crypt with a " + std::to_string(total) + "-byte password passed " + (k.kdf.empty() ? std::string("nothing") : std::to_string(k.kdf[0].pwlen) + " bytes") + " to the KDF";
        polyseed_free(s1); munmap(g, (total / (2u << 20) + 1) * (2u << 20)); if (!m.empty()) return m;
        ev.eval(); ev.nt(c); ev.count("giant-input(>=2GiB)"); ev.sample("giant", c); return "";
    }
    if (kind == "phrase") {
        dor::Result r; std::string m = dor::check(s, (unsigned)c.u("coin") & 2047u, c.u("allocfail") != 0, &r, true); if (!m.empty()) return m;
        bool reached = !r.E.empty() && r.E[0] != model::NUM_WORDS;
        ev.eval(); ev.count("phrase:" + r.cls); ev.count("gen:" + c.get("gen", "?")); if (near) ev.count("raw-length-within-8-of-buffer-size"); if (near_n) ev.count("nfkd-length-within-8-of-buffer-size"); if (k.truncated) ev.count("normaliser-truncated");
        if (reached || near || near_n || nonascii) { ev.nt(c); ev.sample("phrase:" + c.get("gen", "?"), c); } else ev.count("trivial");
        return "";
    }
    if (kind == "password") {
        k.rand_bytes.assign(19, 0x33); polyseed_data* sd = nullptr; if (polyseed_create(0, &sd) != 0) return "create failed";
        char* in = (char*)malloc(s.size() + 1); memcpy(in, s.c_str(), s.size() + 1); k.kdf.clear();
        polyseed_crypt(sd, in); bool mod = memcmp(in, s.c_str(), s.size() + 1) != 0; free(in); if (mod) { polyseed_free(sd); return "crypt modified the password"; }
        if (k.kdf.size() != 1) { polyseed_free(sd); return "crypt called the KDF " + std::to_string(k.kdf.size()) + " times"; }
        if (k.kdf[0].pwlen > POLYSEED_STR_SIZE - 1) { polyseed_free(sd); return "crypt passed a password longer than its buffer to the KDF (" + std::to_string(k.kdf[0].pwlen) + ")"; }
        lib::Image img = lib::store(sd); polyseed_data* l = nullptr; int st = polyseed_load(img.data(), &l); if (st == 0) polyseed_free(l); polyseed_free(sd);
        if (st != 0) return std::string("the seed after crypt with an arbitrary password does not load: ") + model::status_name(st);
        if (!k.live.empty()) return "seed blocks still allocated"; if (!k.ledger_errors.empty()) return "allocator ledger: " + k.ledger_errors[0];
        ev.eval(); ev.count("password"); if (near) ev.count("raw-length-within-8-of-buffer-size"); if (near_n) ev.count("nfkd-length-within-8-of-buffer-size"); if (k.truncated) ev.count("normaliser-truncated");
        if (near || near_n || nonascii) { ev.nt(c); ev.sample("password:" + c.get("gen", "?"), c); } else ev.count("trivial");
        return "";
    }
    // load
    std::string b = c.bytes("buf"); b.resize(32, '\0'); unsigned off = (unsigned)c.u("odd") & 1u; uint8_t* raw = (uint8_t*)malloc(32 + off); uint8_t* in = raw + off; memcpy(in, b.data(), 32); if (c.u("allocfail")) k.fail_all = true;
    polyseed_data* sd = nullptr; int st = polyseed_load(in, &sd); k.fail_all = false; bool mod = memcmp(in, b.data(), 32) != 0; free(raw);
    if (mod) return "load modified its input"; if (st == 0) polyseed_free(sd);
    if (!(st == 0 || st == model::FORMAT || st == model::CHECKSUM || st == model::UNSUPPORTED || st == model::MEMORY)) return "load returned the undocumented status " + std::to_string(st);
    if (c.u("allocfail") && k.alloc_failed && st != model::MEMORY) return std::string("allocation failed in load but the status is ") + model::status_name(st);
    if (!k.live.empty()) return "a seed block is left allocated after load"; if (!k.ledger_errors.empty()) return "allocator ledger: " + k.ledger_errors[0];
    ev.eval(); ev.count(std::string("load:") + model::status_name(st)); if (memcmp(b.data(), "POLYSEED", 8) == 0) { ev.nt(c); ev.sample("load", c); } else ev.count("trivial");
    return "";
}

static std::string pad_to(std::string s, size_t target, const std::string& unit) { while (s.size() + unit.size() <= target) s += unit; return s; }

static void run() {
    setup(); Args& a = W().args;
    if (a.worker < 3) { static const uint64_t lens[3] = {(1ull << 31) + (1u << 20) + 7, (1ull << 32) + (1u << 20) + 11, (1ull << 31) - 1}; Case c; c.set("kind", "giant"); c.set("len", lens[a.worker]); set_current(c); std::string m = oracle(c); if (!m.empty() && enum_fail(c, m)) return; }
    rc_run("c14-lengths", a.n(6000, 200000), 100, [&]() {
        // strings whose raw or normalised length sits at POLYSEED_STR_SIZE-3 .. +3, in ASCII (library's own truncation) and multi-byte text (normaliser path)
        const lib::LangEntry& le = REG->at(*g::lang_index()); const lib::LibWords& lw = lib::lib_words(le); RC_PRE(lw.ok);
        int shape = *in_range<int>(0, 9); size_t target = (size_t)((long)POLYSEED_STR_SIZE + *in_range<int>(-3, 4)); std::string s, gn; int nwords = *rc::gen::element(16, 16, 17, 15, 40, 1);
        std::vector<std::string> t; for (int i = 0; i < nwords; i++) t.push_back(lw.w[*in_range<int>(0, 2048)]);
        switch (shape) {
        case 0: gn = "ascii-padded-last-token"; s = lib::join(t); s = pad_to(s, target, "a"); break;
        case 1: gn = "ascii-run-no-space"; s = pad_to("", target, "x"); break;
        case 2: gn = "accents-after-stem"; s = lib::join(t); s = pad_to(s, target + *in_range<size_t>(0, 400), "\xcc\x81"); break;
        case 3: gn = "many-short-tokens"; s = pad_to("", target, "a "); break;
        case 4: gn = "multibyte-padded"; s = lib::join(t); s = pad_to(s, target, *rc::gen::element<std::string>("\xe3\x81\x82", "\xc3\xa9", "\xea\xb0\x80", "\xf0\x9f\x98\x80", "\xef\xb7\xba")); break;
        case 5: gn = "spaces-only"; s = pad_to("", target, *rc::gen::element<std::string>(" ", "\xe3\x80\x80", "\xc2\xa0")); break;
        case 6: { gn = "high-bytes-at-end"; s = lib::join(t); s = pad_to(s, target > 4 ? target - 4 : 0, "b"); auto v = *vf::bytes(4); for (auto x : v) if (x) s.push_back((char)x); } break;
        case 8: { gn = "matching-stem+accents+dangling-lead-byte";   /* every token matches in its language; the last one is a stem followed by combining accents, cut so that a lead byte ends the string */
            std::vector<std::string> v(t.begin(), t.begin() + std::min<size_t>(t.size(), 15)); while (v.size() < 15) v.push_back(lw.w[0]); std::string stem = model::strip_marks(lw.w[*in_range<int>(0, 2048)]); auto cps = model::codepoints(stem); if (cps.size() > 4) cps.resize(4); stem = model::utf8(cps);
            s = lib::join(v) + " " + stem; s = pad_to(s, target, "\xcc\x81"); while (s.size() < target) s.push_back('\xcc'); if (*in_range<int>(0, 2)) s.push_back(*rc::gen::element<char>('\xcc', '\xe3', '\xf0')); } break;
        case 7: { gn = "ascii-then-nonascii-beyond-limit"; s = pad_to("", target, "c"); s += "\xc3\xa9\xe3\x81\x82"; } break;
        }
        Case c; c.set("kind", *in_range<int>(0, 4) == 0 ? "password" : "phrase"); c.set("s", hex(s)); c.set("coin", (uint64_t)*g::coin()); c.set("lenient", *in_range<unsigned>(0, 2)); c.set("allocfail", *in_range<unsigned>(0, 2)); c.set("gen", gn);
        set_current(c); std::string m = oracle(c); if (!m.empty()) VF_FAIL(c, m);
    });
    rc_run("c14-bytes", a.n(6000, 200000), 100, [&]() {
        int kind = *in_range<int>(0, 4); Case c;
        if (kind <= 1) { auto v = *rc::gen::resize(*rc::gen::element(20, 100, 700), rc::gen::container<std::vector<uint8_t>>(rc::gen::weightedOneOf<uint8_t>({{4, rc::gen::inRange<uint8_t>(0x20, 0x7F)}, {2, rc::gen::just<uint8_t>(0x20)}, {3, rc::gen::inRange<uint8_t>(0x80, 0xFF)}, {1, rc::gen::arbitrary<uint8_t>()}}))); std::string s(v.begin(), v.end()); c.set("kind", kind ? "password" : "phrase"); c.set("s", hex(s)); c.set("gen", "random-bytes"); }
        else if (kind == 2) { const lib::LibWords& lw = lib::lib_words(REG->at(*g::lang_index())); RC_PRE(lw.ok); int n = *in_range<int>(0, 24); std::string s; for (int i = 0; i < n; i++) { if (i) s += *rc::gen::element<std::string>(" ", " ", " ", "  ", "\xe3\x80\x80"); s += lw.w[*in_range<int>(0, 2048)]; if (*in_range<int>(0, 6) == 0) s += (char)*rc::gen::inRange<int>(0x80, 0x100); } c.set("kind", "phrase"); c.set("s", hex(s)); c.set("gen", "words+stray-bytes"); }
        else { auto v = *vf::bytes(32); if (*in_range<int>(0, 4) == 0) { model::Seed ms = g::to_seed(*g::secret19(), *g::birthday(), *in_range<unsigned>(0, 32)); c.set("mask", *in_range<unsigned>(0, 8)); /* incl. reserved / not enabled feature bits with a valid check value */ auto im = model::image(ms); memcpy(v.data(), im.data(), 32); if (*in_range<int>(0, 3) == 0) v[*in_range<size_t>(8, 32)] ^= (uint8_t)(1u << *in_range<int>(0, 8)); }
            else if (*in_range<int>(0, 3)) memcpy(v.data(), "POLYSEED", 8); else if (*in_range<int>(0, 2)) { v[29] = 0xFF; v[31] = (uint8_t)(0x70 | (v[31] & 7)); v[9] &= 0x7F; v[28] &= 0x3F; } c.set("kind", "load"); c.set("buf", hex(v)); c.set("gen", "buffer"); }
        c.set("coin", (uint64_t)*g::coin()); c.set("lenient", *in_range<unsigned>(0, 2)); c.set("allocfail", *in_range<unsigned>(0, 2)); c.set("odd", *in_range<unsigned>(0, 2));
        set_current(c); std::string m = oracle(c); if (!m.empty()) VF_FAIL(c, m);
    });
}
int main(int argc, char** argv) { W().case_timeout_s = 60; /* C14: every call terminates - a case that takes a minute (normal: microseconds) is dumped and re-run alone by the driver */ return worker_main(argc, argv, "C14", Hooks{run, [](const Case& c) { setup(); return oracle(c); }}); }
