// C17 — the public phrase-buffer size bounds every phrase the library can produce.
#include "gen.hpp"
using namespace vf;

static const lib::Registry* REG;
static void setup() { Case c; c.set("phase", "setup"); set_current(c); deps::inject(0); REG = &lib::Registry::get(); }

struct Bounds { size_t enc_internal = 0, output = 0, dec_internal = 0; size_t sep_out = 1; std::vector<int> order, order_c; size_t maxw = 0; };
// per-position maxima over the admissible index sets (all indices; even indices only in word 3; check word unconstrained)
static bool bounds_of_uncached(const lib::LangEntry& le, Bounds& b, std::string* why);
static bool bounds_of(const lib::LangEntry& le, Bounds& b, std::string* why) {   /* computed once per language and process */
    static std::map<const polyseed_lang*, std::pair<bool, Bounds>> cache; static std::map<const polyseed_lang*, std::string> whys; auto it = cache.find(le.lang);
    if (it == cache.end()) { Bounds nb; std::string w; bool ok = bounds_of_uncached(le, nb, &w); it = cache.emplace(le.lang, std::make_pair(ok, nb)).first; whys[le.lang] = w; }
    b = it->second.second; *why = whys[le.lang]; return it->second.first;
}
static bool bounds_of_uncached(const lib::LangEntry& le, Bounds& b, std::string* why) {
    const lib::LibWords& lw = lib::lib_words(le); if (!lw.ok) { *why = lw.why; return false; }
    // separator as it appears in the output: the bytes between the first two words of the zero-seed phrase
    polyseed_data* z = lib::zero_seed(); if (!z) { *why = "no zero seed"; return false; } std::string ph = lib::encode(z, le.lang, 0); polyseed_free(z);
    std::string w0c = model::nfc(lw.w[0]); if (ph.compare(0, w0c.size(), w0c) != 0 && ph.compare(0, lw.w[0].size(), lw.w[0]) != 0) { *why = "cannot locate the separator"; return false; }
    size_t wl = ph.compare(0, w0c.size(), w0c) == 0 ? w0c.size() : lw.w[0].size(); if ((ph.size() - 16 * wl) % 15 != 0) { *why = "cannot locate the separator"; return false; } b.sep_out = (ph.size() - 16 * wl) / 15;
    size_t mx_d = 0, mx_c = 0, ev_d = 0, ev_c = 0;
    for (int i = 0; i < 2048; i++) { size_t d = lw.w[i].size(), c = model::nfc(lw.w[i]).size(); if (c > d) c = d > c ? d : c; mx_d = std::max(mx_d, d); mx_c = std::max(mx_c, std::max(c, (size_t)0)); if (!(i & 1)) { ev_d = std::max(ev_d, d); ev_c = std::max(ev_c, c); } }
    b.enc_internal = 15 * mx_d + ev_d + 15 * b.sep_out;      // NFKD words + raw separators, as assembled before composition
    b.output = std::max(15 * mx_c + ev_c, 15 * mx_d + ev_d) + 15 * b.sep_out;   // composed (or uncomposed, whichever the language emits — the larger is a sound bound)
    b.dec_internal = 15 * mx_d + ev_d + 15;                   // NFKD of the output: separators become single spaces
    b.maxw = mx_d; b.order.resize(2048); for (int i = 0; i < 2048; i++) b.order[i] = i;
    std::stable_sort(b.order.begin(), b.order.end(), [&](int x, int y) { return lw.w[x].size() > lw.w[y].size(); });
    { std::vector<size_t> cl(2048); for (int i = 0; i < 2048; i++) cl[i] = model::nfc(lw.w[i]).size(); b.order_c = b.order; std::stable_sort(b.order_c.begin(), b.order_c.end(), [&](int x, int y) { return cl[x] > cl[y]; }); }   /* longest in the composed output form */
    return true;
}

// case: kind=bound lang | kind=witness lang coin shown(hex of 15 x uint16 LE indices for words 2..16)
static std::string oracle(const Case& c) {
    deps::Kit& k = deps::kit(0); k.reset_all(); Evidence& ev = W().ev; polyseed_enable_features(7);
    const lib::LangEntry* le = REG->by_name(c.get("lang")); if (!le) return "";
    Bounds b; std::string why; if (!bounds_of(*le, b, &why)) { ev.count("discard:bounds-unavailable"); ev.note(le->name_en + ": " + why); return ""; }
    if (c.get("kind") == "bound") {
        ev.eval(); ev.nt(c); ev.count("bound:" + le->name_en); ev.note(le->name_en + ": sound upper bounds encode-internal=" + std::to_string(b.enc_internal) + " output=" + std::to_string(b.output) + " decode-internal=" + std::to_string(b.dec_internal) + " vs POLYSEED_STR_SIZE=" + std::to_string(POLYSEED_STR_SIZE));
        size_t worst = std::max(b.enc_internal, std::max(b.output, b.dec_internal));
        if (worst >= POLYSEED_STR_SIZE) { ev.count("bound-not-below-buffer-size"); ev.note(le->name_en + ": bound " + std::to_string(worst) + " >= POLYSEED_STR_SIZE; witness search decides"); }
        ev.sample("bound", c); return "";
    }
    // witness: a concrete seed; the three lengths must be below the buffer size and the phrase must round-trip
    std::string sh = c.bytes("shown"); sh.resize(30, '\0'); std::array<unsigned, 16> shown{}; for (int i = 1; i < 16; i++) shown[i] = ((uint8_t)sh[2 * (i - 1)] | ((uint8_t)sh[2 * (i - 1) + 1] << 8)) & 2047u;
    unsigned coin = (unsigned)c.u("coin") & 2047u; model::Seed ms = g::seed_showing(shown, coin);
    lib::SeedPtr s; if (lib::load_model(ms, s.out()) != 0) { s.p = nullptr; ev.count("discard:load-construct-failed"); return ""; }
    size_t ret = 0; std::string out = lib::encode(s, le->lang, coin, &ret);
    { k.fail_all = true; size_t r2 = 0; std::string o2 = lib::encode(s, le->lang, coin, &r2); k.fail_all = false; if (o2 != out || r2 != ret) return "with an exhausted allocator encode returns " + std::to_string(r2) + " and an output of length " + std::to_string(o2.size()) + " instead of " + std::to_string(ret) + "/" + std::to_string(out.size()); }
    auto t = lib::tokens(out); size_t enc_internal = 15 * b.sep_out, dec_internal = model::nfkd(out).size(); for (auto& x : t) enc_internal += x.size();
    std::string lens = " (encode-internal " + std::to_string(enc_internal) + ", output " + std::to_string(out.size()) + ", decode-internal " + std::to_string(dec_internal) + ", POLYSEED_STR_SIZE " + std::to_string(POLYSEED_STR_SIZE) + ")";
    if (out.size() >= POLYSEED_STR_SIZE) return "the composed phrase is not strictly shorter than the buffer" + lens;
    if (enc_internal >= POLYSEED_STR_SIZE) return "the decomposed phrase assembled inside encode is not strictly shorter than the buffer" + lens;
    if (dec_internal >= POLYSEED_STR_SIZE) return "the decomposed form the decoder handles is not strictly shorter than the buffer" + lens;
    if (ret != out.size()) return "encode returned " + std::to_string(ret) + " but the NUL-terminated output has length " + std::to_string(out.size());
    k.truncated = false; lib::Image img; int st = lib::decode_x(out, coin, le->lang, &img);
    if (k.truncated) return "the phrase had to be truncated by the normaliser when fed back to the decoder" + lens;
    if (st != 0) return std::string("the extremal phrase decodes to ") + model::status_name(st) + lens;
    if (img != lib::store(s)) return "the extremal phrase decodes to a different seed";
    { // the decomposed form of the same phrase (what a user's input method may deliver, and what the library handles internally) must be accepted as well
        std::string dn = model::nfkd(out); k.truncated = false; lib::Image i2; int s2 = lib::decode_x(dn, coin, le->lang, &i2);
        if (k.truncated) return "the decomposed form of the phrase had to be truncated by the normaliser" + lens;
        if (s2 != 0 || i2 != img) return std::string("the decomposed form of the extremal phrase (") + std::to_string(dn.size()) + " bytes) decodes to " + model::status_name(s2) + lens;
        const polyseed_lang* lo = nullptr; lib::Image i3; int s3 = lib::decode_auto(out, coin, &lo, &i3); if (s3 != 0 && s3 != model::MULT_LANG) return std::string("automatic decoding of the extremal phrase returns ") + model::status_name(s3) + lens;
    }
    size_t worst = std::max(b.enc_internal, std::max(b.output, b.dec_internal)); size_t mine = std::max(enc_internal, std::max(out.size(), dec_internal));
    ev.eval(); ev.count("witness:" + le->name_en); if (mine * 10 >= worst * 9) { ev.nt(c); ev.count("witness>=90%-of-bound"); ev.sample("witness:" + le->name_en, c); } else ev.count("trivial");
    if (mine + 1 >= worst) ev.count("witness-attains-bound"); if (out.size() >= 360) ev.count("composed-output>=360-bytes"); if (dec_internal >= 500) ev.count("decomposed>=500-bytes");
    return "";
}

static std::string shown_hex(const std::array<unsigned, 16>& s) { std::string b; for (int i = 1; i < 16; i++) { b.push_back((char)(s[i] & 255)); b.push_back((char)(s[i] >> 8)); } return hex(b); }

static void run() {
    setup(); Args& a = W().args; Evidence& ev = W().ev;
    for (size_t li = 0; li < REG->size(); li++) if ((int)(li % (size_t)a.nworkers) == a.worker) { Case c; c.set("kind", "bound"); c.set("lang", REG->at(li).name_en); set_current(c); std::string m = oracle(c); if (!m.empty() && enum_fail(c, m)) return; ev.enumerated["per-language word-length maxima (2048 words each)"] += 1; }
    // directed witnesses: all 15 data words = the longest (even-index for word 3), every coin class; then rapidcheck over the longest-k classes
    for (size_t li = 0; li < REG->size(); li++) {
        Bounds b; std::string why; if (!bounds_of(REG->at(li), b, &why)) continue;
        for (unsigned coin = (unsigned)a.worker; coin < 2048; coin += (unsigned)a.nworkers * (a.thorough() ? 1 : 8)) {
            std::array<unsigned, 16> shown{}; for (int i = 1; i < 16; i++) shown[i] = (unsigned)b.order[0]; if (shown[2] & 1) for (int j = 0; j < 2048; j++) if (!(b.order[j] & 1)) { shown[2] = (unsigned)b.order[j]; break; }
            Case c; c.set("kind", "witness"); c.set("lang", REG->at(li).name_en); c.set("coin", coin); c.set("shown", shown_hex(shown)); set_current(c); std::string m = oracle(c); if (!m.empty() && enum_fail(c, m)) return;
        }
    }
    // exact-bound witnesses: data words drawn from the words of maximal length until the check word (reference arithmetic) is of maximal length too
    for (size_t li = 0; li < REG->size(); li++) {
        if ((int)(li % (size_t)a.nworkers) != a.worker % (int)REG->size() && a.nworkers >= (int)REG->size()) continue;
        Bounds b; std::string why; if (!bounds_of(REG->at(li), b, &why)) continue; const lib::LibWords& lw = lib::lib_words(REG->at(li));
        std::vector<unsigned> top, top_even; for (int i = 0; i < 2048; i++) if (lw.w[i].size() == b.maxw) { top.push_back((unsigned)i); if (!(i & 1)) top_even.push_back((unsigned)i); }
        if (top.size() < 4 || top_even.empty()) { top.clear(); top_even.clear(); for (int j = 0; j < 12; j++) { top.push_back((unsigned)b.order[j]); if (!(b.order[j] & 1)) top_even.push_back((unsigned)b.order[j]); } }   // few maximal words: take the 12 longest
        if (top.empty() || top_even.empty()) continue; size_t minlen = lw.w[top.back()].size(); for (unsigned x : top) minlen = std::min(minlen, lw.w[x].size()); SplitMix sm(mix64(a.seed * 77 + li + (uint64_t)a.worker * 1315423911ull)); int found = 0;
        for (int tries = 0; tries < (a.thorough() ? 400000 : 60000) && found < 4; tries++) {
            std::array<unsigned, 16> shown{}; for (int i = 1; i < 16; i++) shown[i] = top[sm.below((uint32_t)top.size())]; shown[2] = top_even[sm.below((uint32_t)top_even.size())];
            unsigned coin = sm.below(2048); std::array<unsigned, 16> co = shown; co[1] ^= coin; unsigned chk = model::check_value(co);
            if (lw.w[chk].size() < minlen) continue; found++;
            Case c; c.set("kind", "witness"); c.set("lang", REG->at(li).name_en); c.set("coin", coin); c.set("shown", shown_hex(shown)); c.set("exact", 1); set_current(c); std::string m = oracle(c); if (!m.empty() && enum_fail(c, m)) return;
            W().ev.count("exact-bound-witness:" + REG->at(li).name_en);
        }
    }
    rc_run("c17-witnesses", a.n(40000, 400000), 100, [&]() {
        const lib::LangEntry& le = REG->at(*g::lang_index()); Bounds b; std::string why; RC_PRE(bounds_of(le, b, &why));
        int topk = *rc::gen::element(1, 2, 3, 6, 12, 40); std::array<unsigned, 16> shown{}; const std::vector<int>& ord = *in_range<int>(0, 2) ? b.order : b.order_c;   /* longest decomposed or longest composed words */
        for (int i = 1; i < 16; i++) shown[i] = (unsigned)ord[*in_range<int>(0, topk)];
        if (shown[2] & 1) { for (int j = 0; j < 2048; j++) if (!(ord[j] & 1)) { shown[2] = (unsigned)ord[j]; break; } }
        Case c; c.set("kind", "witness"); c.set("lang", le.name_en); c.set("coin", (uint64_t)*g::coin()); c.set("shown", shown_hex(shown)); set_current(c);
        std::string m = oracle(c); if (!m.empty()) VF_FAIL(c, m);
    });
}
int main(int argc, char** argv) { return worker_main(argc, argv, "C17", Hooks{run, [](const Case& c) { setup(); return oracle(c); }}); }
