// C04 — key derivation receives exact, deterministic, domain-separated inputs (recorded KDF arguments vs the specification).
#include "gen.hpp"
#include <sys/mman.h>
using namespace vf;

static const lib::Registry* REG; static uint8_t* NOACCESS;
static void setup() {
    Case c; c.set("phase", "setup"); set_current(c); deps::inject(0); REG = &lib::Registry::get(); model::require_self_check();
    NOACCESS = (uint8_t*)mmap(nullptr, 1 << 16, PROT_NONE, MAP_PRIVATE | MAP_ANONYMOUS, -1, 0);
}

static std::string expect_call(const deps::KdfCall& kc, const model::Seed& s, unsigned coin, uint8_t* key, size_t ksize) {
    auto pw = model::keygen_password(s); auto salt = model::keygen_salt(s, coin);
    if (kc.pwlen != 32) return "password length is " + std::to_string(kc.pwlen) + ", must be 32";
    if (memcmp(kc.pw.data(), pw.data(), 32) != 0) return "password is " + hex(kc.pw) + ", must be " + hex(pw.data(), 32);
    if (kc.saltlen != 32) return "salt length is " + std::to_string(kc.saltlen) + ", must be 32";
    if (memcmp(kc.salt.data(), salt.data(), 32) != 0) return "salt is " + hex(kc.salt) + ", must be " + hex(salt.data(), 32);
    if (kc.iterations != model::KDF_ITERATIONS) return "iteration count is " + std::to_string(kc.iterations) + ", must be 10000";
    if (kc.key != key) return "key pointer is not the caller's buffer";
    if (kc.keylen != ksize) return "key length is " + std::to_string(kc.keylen) + ", caller asked for " + std::to_string(ksize);
    return "";
}

// case: secret birthday features coin ksize path lang pcoin pw keymode(0 pattern,1 noaccess) flip
static std::string oracle(const Case& c) {
    deps::Kit& k = deps::kit(0); k.reset_all(); Evidence& ev = W().ev;
    std::string sec = c.bytes("secret"); sec.resize(19, '\0'); std::vector<uint8_t> sv(sec.begin(), sec.end());
    unsigned feat = (unsigned)c.u("features") & 0x17u, coin = (unsigned)c.u("coin") & 2047u; size_t ksize = (size_t)c.u("ksize", 32);
    model::Seed want = g::to_seed(sv, (int)(c.u("birthday") & 1023u), feat);
    std::string err; lib::SeedPtr s0(g::build_by_create(want, 7, (unsigned)c.u("randtop") & 3u, &err)); if (!s0.p) return "cannot create seed: " + err;
    std::string path = c.get("path", "created"); lib::SeedPtr alt; polyseed_data* s = s0;
    if (path == "decoded") {
        const lib::LangEntry* le = REG->by_name(c.get("lang")); if (!le) return "";
        unsigned pc = (unsigned)c.u("pcoin") & 2047u; std::string ph = lib::encode(s0, le->lang, pc);
        int st = polyseed_decode_explicit(ph.c_str(), (polyseed_coin)pc, le->lang, alt.out()); if (st != 0) { alt.p = nullptr; ev.count("discard:decode-failed"); return ""; } // round trip is C01's business
        s = alt;
    } else if (path == "loaded") {
        lib::Image img = lib::store(s0); int st = polyseed_load(img.data(), alt.out()); if (st != 0) { alt.p = nullptr; ev.count("discard:load-failed"); return ""; }
        s = alt;
    } else if (path == "crypt2") {
        std::string pw = c.bytes("pw"); if (pw.find('\0') != std::string::npos) pw = pw.substr(0, pw.find('\0'));
        polyseed_crypt(s0, pw.c_str()); polyseed_crypt(s0, pw.c_str());
    }
    // the KDF inputs depend on the seed only: reconfiguring the enabled features between obtaining the seed and deriving the key must not matter
    if (c.has("kmask")) polyseed_enable_features((unsigned)c.u("kmask"));
    k.kdf.clear();
    bool noaccess = c.u("keymode") == 1 || ksize > 4096;
    std::vector<uint8_t> buf; uint8_t* key;
    if (noaccess) { k.kdf_mode = deps::KDF_NOTOUCH; key = NOACCESS + 4096; }
    else { k.kdf_mode = deps::KDF_MIX; buf.assign(ksize + 128, 0xC3); key = buf.data() + 64; }
    polyseed_keygen(s, (polyseed_coin)coin, ksize, key);
    if (k.kdf.size() != 1) return "keygen invoked the KDF " + std::to_string(k.kdf.size()) + " times, must be exactly once";
    deps::KdfCall kc = k.kdf[0];
    std::string m = expect_call(kc, want, coin, key, ksize); if (!m.empty()) return "keygen (" + path + "): " + m;
    if (!noaccess) {
        std::vector<uint8_t> exp(ksize + 128, 0xC3); deps::kdf_fill(k, kc.pw.data(), kc.pwlen, kc.salt.data(), kc.saltlen, exp.data() + 64, ksize);
        if (exp != buf) return "key buffer after keygen is not exactly what the KDF wrote (the library rewrote or overran it)";
    }
    if (k.rand_total != 19 && k.rand_total != 0) {} // create consumed 19; nothing more expected (checked in C18)
    // domain separation: change exactly one ingredient -> different (pw, salt)
    {
        unsigned which = (unsigned)c.u("flip") % 4; model::Seed w2 = want; unsigned coin2 = coin;
        if (which == 0) w2.secret[(c.u("flip") >> 2) % 19] ^= (uint8_t)(1u << ((c.u("flip") >> 8) % ((c.u("flip") >> 2) % 19 == 18 ? 6 : 8)));
        else if (which == 1) coin2 = (coin ^ (1u << ((c.u("flip") >> 2) % 11))) & 2047u;
        else if (which == 2) w2.birthday ^= 1u << ((c.u("flip") >> 2) % 10);
        else w2.features ^= (1u << ((c.u("flip") >> 2) % 3));
        polyseed_enable_features(7); lib::SeedPtr s2(g::build_by_create(w2, 7, 0, &err)); if (!s2.p) return "cannot create neighbour seed: " + err;
        k.kdf.clear(); k.kdf_mode = deps::KDF_NOTOUCH; polyseed_keygen(s2, (polyseed_coin)coin2, 32, NOACCESS + 4096);
        if (k.kdf.size() != 1) return "keygen invoked the KDF a wrong number of times";
        if (k.kdf[0].pw == kc.pw && k.kdf[0].salt == kc.salt) return "two seeds differing only in " + std::string(which == 0 ? "secret" : which == 1 ? "coin" : which == 2 ? "birthday" : "features") + " produce identical KDF inputs";
    }
    alt.reset(); s0.reset();  
    bool nt = want.birthday > 511 || coin > 2 || feat || path != "created" || ksize != 32;
    ev.eval(); ev.count("path:" + path); ev.count(noaccess ? "key:no-access-page" : "key:patterned"); ev.count("ksize:" + std::to_string(ksize));
    if (want.birthday > 511) ev.count("birthday>511"); if (c.has("kmask")) ev.count("mask-changed-before-keygen"); if (nt) { ev.nt(c); ev.sample("path:" + path, c); } else ev.count("trivial");
    return "";
}

static void run() {
    setup(); Args& a = W().args;
    rc_run("c04-keygen", a.n(40000, 300000), 100, [&]() {
        auto sec = *g::secret19(); int bd = *g::birthday(); unsigned feat = *in_range<unsigned>(0, 32) & 0x17u; int coin = *g::coin();
        size_t ks = *rc::gen::element<size_t>(32, 32, 0, 1, 16, 33, 64, 4096, (size_t)-1 / 2, 31, 65);
        std::string path = *rc::gen::element<std::string>("created", "decoded", "loaded", "crypt2");
        Case c; c.set("secret", hex(sec)); c.set("birthday", (uint64_t)bd); c.set("features", feat); c.set("coin", (uint64_t)coin); c.set("ksize", (uint64_t)ks); c.set("path", path);
        c.set("lang", REG->at(*g::lang_index()).name_en); c.set("pcoin", (uint64_t)*g::coin()); c.set("pw", hex(*rc::gen::container<std::string>(rc::gen::inRange<char>(32, 127)))); c.set("keymode", *in_range<unsigned>(0, 2)); c.set("flip", *vf::u64() % 1000003); c.set("randtop", *in_range<unsigned>(0, 4)); if (*in_range<int>(0, 2)) c.set("kmask", *in_range<unsigned>(0, 8));
        set_current(c); std::string m = oracle(c); if (!m.empty()) VF_FAIL(c, m);
    });
}
int main(int argc, char** argv) { return worker_main(argc, argv, "C04", Hooks{run, [](const Case& c) { setup(); return oracle(c); }}); }
