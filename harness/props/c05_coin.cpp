// C05 — a phrase is bound to its coin (model-free: library compared with itself).
#include "gen.hpp"
using namespace vf;

static const lib::Registry* REG;
static void setup() { Case c; c.set("phase", "setup"); set_current(c); deps::inject(0); REG = &lib::Registry::get(); }

// case: kind=pair  secret birthday ufeat enc lang a b
//       kind=row   secret birthday ufeat enc lang a         (all 2047 other coins b)
static std::string oracle(const Case& c) {
    deps::Kit& k = deps::kit(0); k.reset_all(); Evidence& ev = W().ev;
    const lib::LangEntry* le = REG->by_name(c.get("lang")); if (!le) return "";
    std::string sec = c.bytes("secret"); sec.resize(19, '\0'); std::vector<uint8_t> sv(sec.begin(), sec.end());
    model::Seed want = g::to_seed(sv, (int)(c.u("birthday") & 1023u), ((unsigned)c.u("ufeat") & 7u) | (((unsigned)c.u("enc") & 1u) << 4));
    std::string err; lib::SeedPtr s(g::build_by_create(want, 7, 0, &err)); if (!s.p) return "cannot create seed: " + err;
    unsigned a = (unsigned)c.u("a") & 2047u; bool row = c.get("kind") == "row";
    std::string pa = lib::encode(s, le->lang, a); auto ta = lib::tokens(pa);
    lib::Image img0 = lib::store(s), img;
    int st = lib::decode_x(pa, a, le->lang, &img);
    if (st != model::OK) return std::string("decode_explicit(phrase_A, A) returned ") + model::status_name(st) + " for A=" + std::to_string(a);
    if (img != img0) return "decode_explicit(phrase_A, A) yields another seed";
    uint64_t n = 0;
    for (unsigned b = row ? 0 : ((unsigned)c.u("b") & 2047u); b < 2048; b++) {
        if (b != a) {
            int sb = lib::decode_x(pa, b, le->lang);
            if (sb != model::CHECKSUM) return "phrase for coin " + std::to_string(a) + " decoded with coin " + std::to_string(b) + " returns " + model::status_name(sb) + " instead of CHECKSUM";
            n++;
            if (!row || (b % 64) == (a % 64)) { // the auto decoder and the word-by-word difference (sampled in row mode)
                // the verdict does not depend on the allocator: a wrong coin is a checksum error even when no memory is available
                { k.fail_all = true; int sf = lib::decode_x(pa, b, le->lang); k.fail_all = false; if (sf != model::CHECKSUM) return "phrase for coin " + std::to_string(a) + " decoded with coin " + std::to_string(b) + " while the allocator fails returns " + model::status_name(sf) + " instead of CHECKSUM"; }
                int sa = lib::decode_auto(pa, b); if (sa == model::OK) return "decode (auto) accepts the phrase for coin " + std::to_string(a) + " with coin " + std::to_string(b);
                auto tb = lib::tokens(lib::encode(s, le->lang, b));
                if (tb.size() != 16 || ta.size() != 16) return "phrase does not have 16 tokens";
                for (int i = 0; i < 16; i++) { if (i == 1) { if (ta[i] == tb[i]) return "phrases for coins " + std::to_string(a) + " and " + std::to_string(b) + " have the same second word"; } else if (ta[i] != tb[i]) return "phrases for coins " + std::to_string(a) + " and " + std::to_string(b) + " differ in word " + std::to_string(i + 1); }
            }
        }
        if (!row) break;
    }
    s.reset(); 
    ev.eval(n ? n : 1); ev.count(row ? "rows" : "pairs"); ev.count("lang:" + le->name_en); ev.count("coin-pairs", n);
    uint64_t base = fnv1a(c.str()); for (uint64_t i = 0; i < n; i++) ev.fps.insert(mix64(base + i)); ev.nontrivial += n;
    ev.sample((row ? "row:" : "pair:") + le->name_en, c);
    return "";
}

static void run() {
    setup(); Args& a = W().args; Evidence& ev = W().ev;
    // exhaustive 2048 x 2047 ordered coin pairs for k seeds; rows (coin A) are sharded over the workers
    int nseeds = (int)a.n(4, 24);
    uint64_t rows = 0;
    for (int si = 0; si < nseeds; si++) {
        SplitMix sm(mix64(a.seed * 977 + (uint64_t)si)); std::vector<uint8_t> sec(19); for (auto& b : sec) b = (uint8_t)sm.next();
        // sorted languages rotate with the driver seed; Chinese (linear search, 100 us per decode) only in thorough
        std::vector<const lib::LangEntry*> pool; for (auto& l : REG->langs) if (a.thorough() || l.name_en.rfind("Chinese", 0) != 0) pool.push_back(&l);
        const lib::LangEntry* le = pool[(a.seed + (uint64_t)si) % pool.size()];
        for (unsigned A = 0; A < 2048; A++) {
            if ((int)(A % (unsigned)a.nworkers) != a.worker) continue;
            Case c; c.set("kind", "row"); c.set("secret", hex(sec)); c.set("birthday", sm.next() % 1024); c.set("ufeat", si % 8); c.set("enc", si & 1); c.set("lang", le->name_en); c.set("a", A);
            // keep birthday identical across workers for the same seed index
            c.set("birthday", mix64(a.seed + (uint64_t)si) % 1024);
            set_current(c); std::string m = oracle(c); rows++; if (!m.empty() && enum_fail(c, m)) return;
        }
    }
    ev.enumerated["coin rows (all 2047 other coins each) [this worker's shard]"] += rows;
    rc_run("c05-pairs", a.n(6000, 150000), 100, [&]() {
        auto sc = *g::seed_coin(); auto sec = sc.sec; int bd = sc.bd; unsigned uf = sc.feat & 7u, enc = (sc.feat >> 4) & 1u; int A = sc.coin; int li = *g::lang_index(); if (sc.patterned) W().ev.count("gen:patterned-word-indices");
        int B = *rc::gen::weightedOneOf<int>({{4, g::coin()}, {3, rc::gen::map(in_range<int>(0, 11), [A](int b) { return A ^ (1 << b); })}, {1, rc::gen::just(A ^ 2047)}, {1, rc::gen::just((A + 1024) & 2047)}});
        RC_PRE(A != B);
        Case c; c.set("kind", "pair"); c.set("secret", hex(sec)); c.set("birthday", (uint64_t)bd); c.set("ufeat", uf); c.set("enc", enc); c.set("lang", REG->at(li).name_en); c.set("a", (uint64_t)A); c.set("b", (uint64_t)B);
        set_current(c); std::string m = oracle(c); if (!m.empty()) VF_FAIL(c, m);
    });
}

int main(int argc, char** argv) { return worker_main(argc, argv, "C05", Hooks{run, [](const Case& c) { setup(); return oracle(c); }}); }
