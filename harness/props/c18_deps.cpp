// C18 — injected dependencies are honoured; new seeds carry the full CSPRNG output.
#include "seqgen.hpp"
using namespace vf;

#ifdef VERIF_WRAP
// libc interposition (rel variant only, linked with -Wl,--wrap=malloc,--wrap=free,--wrap=time): counts calls made
// inside an API window and outside the harness's own stubs.
extern "C" { void* __real_malloc(size_t); void __real_free(void*); time_t __real_time(time_t*);
void* __wrap_malloc(size_t n) { auto& w = deps::wrap(); if (w.window && !w.in_stub) w.malloc_calls++; return __real_malloc(n); }
void __wrap_free(void* p) { auto& w = deps::wrap(); if (w.window && !w.in_stub) w.free_calls++; __real_free(p); }
time_t __wrap_time(time_t* t) { auto& w = deps::wrap(); if (w.window && !w.in_stub) { w.time_calls++; if (w.fake) { if (t) *t = (time_t)w.fake_time; return (time_t)w.fake_time; } } return __real_time(t); } }
#endif

static std::string oracle(const Case& c) {
    Evidence& ev = W().ev;
    if (c.get("kind") == "bit") {
        // one single-bit random output: the 150 secret bits are exactly the delivered bytes, top two bits of the last byte dropped
        deps::Kit& k = deps::kit(0); k.reset_all(); deps::inject(0); polyseed_enable_features(0); int b = (int)(c.u("bit") % 152);
        std::vector<uint8_t> r(19, c.u("invert") ? 0xFF : 0x00); if (c.u("bit") < 152) r[b / 8] ^= (uint8_t)(0x80 >> (b % 8)); /* bit = 152: the constant output (all zero / all one) itself */ k.rand_bytes = r; k.clock = c.u("t");
        polyseed_data* s = nullptr; int st = polyseed_create(0, &s); if (st != 0) return std::string("create returned ") + model::status_name(st);
        lib::Image img = lib::store(s); polyseed_free(s); std::vector<uint8_t> want = r; want[18] &= 0x3F;
        if (memcmp(img.data() + 10, want.data(), 19) != 0) return "random output " + hex(r) + " gives secret " + hex(img.data() + 10, 19) + ", must be the delivered bytes with the top two bits of the last one dropped";
        unsigned v = img[8] | (img[9] << 8); if ((v & 1023u) != model::birthday_index(c.u("t"))) return "birthday does not come from the injected clock";
        if (k.rand_total != 19) return "create took " + std::to_string(k.rand_total) + " random bytes"; if (k.time_calls < 1) return "create did not ask the injected clock";
        ev.eval(); ev.nt(c); ev.count("single-bit-random-output"); if (b == 0 || b == 151) ev.sample("bit", c); return "";
    }
    std::vector<ops::Op> seq = ops::from_hex(c.get("ops"));
    ops::Machine m; m.fl.check_model = true; m.fl.check_routing = true; m.fl.check_ledger = true; m.fl.allow_inject = true;
#ifdef VERIF_WRAP
    deps::wrap().enabled = true;
#endif
    m.start(true);
    std::string r = m.run(seq); if (!r.empty()) return r + "   sequence: " + ops::describe(seq);
    ev.eval(); ev.count("ops-executed", seq.size()); for (auto& p : m.cls) if (p.first.rfind("inject:", 0) == 0 || p.first.rfind("op:", 0) == 0) ev.count(p.first, p.second);
    if (m.saw_reinject) ev.count("seq:re-injection-to-other-set");
    if (m.cls.count("op:inject")) { ev.nt(c); ev.sample(c.get("gen", "seq"), c); } else ev.count("trivial");
    return "";
}

static void run() {
    Args& a = W().args; { Case c; c.set("phase", "setup"); set_current(c); deps::inject(0); model::require_self_check(); }
    uint64_t done = 0;
    for (int inv = 0; inv < 2; inv++) for (int b = 0; b <= 152; b++) { if ((b + inv) % a.nworkers != a.worker) continue; Case c; c.set("kind", "bit"); c.set("bit", (uint64_t)b); c.set("invert", (uint64_t)inv); c.set("t", model::EPOCH + (uint64_t)b * 7777777ull); set_current(c); std::string m = oracle(c); done++; if (!m.empty() && enum_fail(c, m)) return; }
    W().ev.enumerated["single-bit (and complemented) random-source outputs plus the all-zero and all-one outputs, 153 x 2"] += done;
    seqgen::Weights wt{{10, 3, 10, 5, 5, 5, 5, 4, 2, 4, 2, 6, 1, 1}};
    rc_run("c18-histories", a.n(40000, 400000), 100, [&]() {
        auto seq = *seqgen::sequence(wt, *rc::gen::element(6, 15, 40));
        Case c; c.set("ops", ops::to_hex(seq)); c.set("gen", "injection-history"); set_current(c);
        std::string m = oracle(c); if (!m.empty()) VF_FAIL(c, m);
    });
}
int main(int argc, char** argv) { return worker_main(argc, argv, "C18", Hooks{run, [](const Case& c) { deps::inject(0); return oracle(c); }}); }
