// C18 — injected dependencies are honoured; new seeds carry the full CSPRNG output.
#include "seqgen.hpp"
using namespace vf;

#include "wrap.hpp"

static std::string oracle(const Case& c) {
    Evidence& ev = W().ev;
    if (c.get("kind") == "bit") {
        // one single-bit random output: the 150 secret bits are exactly the delivered bytes, top two bits of the last byte dropped
        deps::Kit& k = deps::kit(0); k.reset_all(); deps::inject(0); polyseed_enable_features(0); int b = (int)(c.u("bit") % 152);
        std::vector<uint8_t> r(19, c.u("invert") ? 0xFF : 0x00); if (c.u("bit") < 152) r[b / 8] ^= (uint8_t)(0x80 >> (b % 8)); /* bit = 152: the constant output (all zero / all one) itself */ k.rand_bytes = r; k.clock = c.u("t");
        polyseed_data* s = nullptr; int st = polyseed_create(0, &s); if (st != 0) return std::string("create returned ") + model::status_name(st);
        lib::Image img = lib::store(s); polyseed_free(s); std::vector<uint8_t> want = r; want[18] &= 0x3F;
        if (memcmp(img.data() + 10, want.data(), 19) != 0) return "random output " + hex(r) + " gives secret " + hex(img.data() + 10, 19) + ", must be the delivered bytes with the top two bits of the last one dropped";
        unsigned v = img[8] | (img[9] << 8); if ((v & 1023u) != model::birthday_index(c.u("t"))) return "birthday does not come from the injected clock";
        if (k.rand_total != 19) return "create took " + std::to_string(k.rand_total) + " random bytes"; if (k.time_calls < 1) return "create did not ask the injected clock";
        ev.eval(); ev.nt(c); ev.count("single-bit-random-output"); if (b == 0 || b == 151) ev.sample("bit", c); return "";
    }
    if (c.get("kind") == "echo") {
        // a random source that writes nothing: the secret must then be what the buffer held when the source returned (whatever the
        // library had put there), taken in one pass of 19 bytes - the library may not second-guess its random source
        deps::Kit& k = deps::kit(0); k.reset_all(); deps::inject(0); polyseed_enable_features(0); k.rand_echo = true; k.clock = c.u("t");
        polyseed_data* s = nullptr; int st = polyseed_create(0, &s); if (st != 0) return std::string("create returned ") + model::status_name(st) + " with a random source that leaves the buffer untouched";
        lib::Image img = lib::store(s); polyseed_free(s); std::vector<uint8_t> want = k.rand_left; want.resize(19, 0); want[18] &= 0x3F; k.rand_echo = false;
        if (k.rand_total != 19) return "create asked the random source for " + std::to_string(k.rand_total) + " bytes in " + std::to_string(k.rand_calls.size()) + " calls when the source left the buffer untouched; it takes 19 bytes, once";
        if (memcmp(img.data() + 10, want.data(), 19) != 0) return "the secret " + hex(img.data() + 10, 19) + " is not what the buffer held when the random source returned (" + hex(want) + ")";
        ev.eval(); ev.nt(c); ev.count("random-source-writes-nothing"); ev.sample("echo", c); return "";
    }
    if (c.get("kind") == "pair") {
        // "a later injection replaces every entry", for injections that change two entries at once while all others stay the same:
        // mode 0: both normalisers are one shared function of set A, then one shared function of set B; mode 1: the two normaliser
        // functions of one set are swapped; mode 2: only u8_nfkd changes; mode 3: only u8_nfc changes.
        int mode = (int)c.u("mode"); deps::kit(0).reset_all(); deps::kit(1).reset_all();
        if (mode == 1 && W().args.variant == "asan") return "";   /* with assertions on, polyseed_inject self-tests the word lists with u8_nfkd: a swapped pair is not a valid dependency set there */
        polyseed_dependency d1 = deps::make<0>(), d2 = deps::make<0>();
        if (mode == 0) { d1.u8_nfc = d1.u8_nfkd = &deps::f_nfkd<0>; d2.u8_nfc = d2.u8_nfkd = &deps::f_nfkd<1>; }
        else if (mode == 1) { d2.u8_nfc = &deps::f_nfkd<0>; d2.u8_nfkd = &deps::f_nfc<0>; }
        else if (mode == 2) { d2.u8_nfkd = &deps::f_nfkd<1>; } else { d2.u8_nfc = &deps::f_nfc<1>; }
        polyseed_inject(&d1); polyseed_enable_features(0); const lib::LangEntry* es = lib::Registry::get().by_name("Spanish"); if (!es) return "";
        polyseed_data* s = nullptr; if (polyseed_create(0, &s) != 0) return "create failed"; polyseed_str out; polyseed_encode(s, es->lang, (polyseed_coin)0, out);
        std::string probe = std::string(out) + " \xc3\xa9";   // 17 tokens with a non-ASCII byte: forces one u8_nfkd call, answers NUM_WORDS
        polyseed_inject(&d2); memset(&d2, 0x41, sizeof d2);
        deps::Kit &a = deps::kit(0), &b = deps::kit(1); uint64_t a_nfc = a.nfc_calls, a_nfkd = a.nfkd_calls, b_nfc = b.nfc_calls, b_nfkd = b.nfkd_calls;
        polyseed_data* t = nullptr; int st = polyseed_decode(probe.c_str(), (polyseed_coin)0, nullptr, &t); if (st == 0) polyseed_free(t);
        uint64_t da_nfc = a.nfc_calls - a_nfc, da_nfkd = a.nfkd_calls - a_nfkd, db_nfc = b.nfc_calls - b_nfc, db_nfkd = b.nfkd_calls - b_nfkd; std::string msg;
        // which stub must have served the decomposition after the second injection
        if (mode == 0 || mode == 2) { if (db_nfkd != 1 || da_nfkd || da_nfc) msg = "decomposition after the second injection was not served by the newly injected u8_nfkd"; }
        else if (mode == 1) { if (da_nfc != 1 || da_nfkd) msg = "after swapping the two normaliser entries the library still calls the old u8_nfkd"; }
        else { if (da_nfkd != 1 || db_nfkd || db_nfc) msg = "changing only u8_nfc disturbed u8_nfkd"; }
        if (msg.empty()) { uint64_t a2 = a.nfc_calls, b2 = b.nfc_calls, a3 = a.nfkd_calls; polyseed_encode(s, es->lang, (polyseed_coin)0, out);   // composition goes to the entry injected as u8_nfc
            if (mode == 0 && (b.nfkd_calls - b_nfkd - db_nfkd) != 1) msg = "composition after the second injection was not served by the newly injected u8_nfc";
            if (mode == 1 && a.nfkd_calls - a3 != 1) msg = "after swapping the two normaliser entries the library still calls the old u8_nfc";
            if (mode == 3 && b.nfc_calls - b2 != 1) msg = "composition after the second injection was not served by the newly injected u8_nfc"; (void)a2; }
        polyseed_free(s); deps::inject(0);
        if (!msg.empty()) return msg + " (mode " + std::to_string(mode) + ")";
        ev.eval(); ev.nt(c); ev.count("pairwise-entry-replacement"); ev.sample("pair", c); return "";
    }
    std::vector<ops::Op> seq = ops::from_hex(c.get("ops"));
    ops::Machine m; m.fl.check_model = true; m.fl.check_routing = true; m.fl.check_ledger = true; m.fl.allow_inject = true;
#ifdef VERIF_WRAP
    deps::wrap().enabled = true;
#endif
    m.start(true);
    std::string r = m.run(seq); if (!r.empty()) return r + "   sequence: " + ops::describe(seq);
    ev.eval(); ev.count("ops-executed", seq.size()); for (auto& p : m.cls) if (p.first.rfind("inject:", 0) == 0 || p.first.rfind("op:", 0) == 0) ev.count(p.first, p.second);
    if (m.saw_reinject) ev.count("seq:re-injection-to-other-set");
    if (m.cls.count("op:inject")) { ev.nt(c); { Case sc = c; sc.set("described", ops::describe(seq).substr(0, 600)); ev.sample(c.get("gen", "seq"), sc); } } else ev.count("trivial");
    return "";
}

static void run() {
    Args& a = W().args; { Case c; c.set("phase", "setup"); set_current(c); deps::inject(0); model::require_self_check(); }
    uint64_t done = 0;
    for (int inv = 0; inv < 2; inv++) for (int b = 0; b <= 152; b++) { if ((b + inv) % a.nworkers != a.worker) continue; Case c; c.set("kind", "bit"); c.set("bit", (uint64_t)b); c.set("invert", (uint64_t)inv); c.set("t", model::EPOCH + (uint64_t)b * 7777777ull); set_current(c); std::string m = oracle(c); done++; if (!m.empty() && enum_fail(c, m)) return; }
    if (a.worker == 0) { Case c; c.set("kind", "echo"); c.set("t", model::EPOCH + 99); set_current(c); std::string m = oracle(c); if (!m.empty() && enum_fail(c, m)) return; }
    for (int mode = 0; mode < 4; mode++) if (mode % a.nworkers == a.worker % 4 && a.worker < 4) { Case c; c.set("kind", "pair"); c.set("mode", (uint64_t)mode); set_current(c); std::string m = oracle(c); if (!m.empty() && enum_fail(c, m)) return; }
    W().ev.enumerated["single-bit (and complemented) random-source outputs plus the all-zero and all-one outputs, 153 x 2"] += done;
    seqgen::Weights wt{{10, 3, 10, 5, 5, 5, 5, 4, 2, 4, 2, 6, 1, 1}};
    rc_run("c18-histories", a.n(40000, 400000), 100, [&]() {
        auto seq = *seqgen::sequence(wt, *rc::gen::element(6, 15, 40));
        Case c; c.set("ops", ops::to_hex(seq)); c.set("gen", "injection-history"); set_current(c);
        std::string m = oracle(c); if (!m.empty()) VF_FAIL(c, m);
    });
}
int main(int argc, char** argv) { return worker_main(argc, argv, "C18", Hooks{run, [](const Case& c) { deps::inject(0); return oracle(c); }}); }
