// C16 — secret material is wiped from freed seeds and from temporaries.
// Every API call runs on a dedicated, pre-patterned stack (makecontext/swapcontext); after it returns the
// dead stack is searched for the secret bytes, the mask, the password, the phrase text and the word-index
// arrays.  The seed block is inspected at the moment the injected free receives it (wipe function in
// "mark" mode, so a zero cannot come from anywhere else).  Plain (unsanitised) builds, linked -z now.
#include "gen.hpp"
#include <ucontext.h>
#include <sys/mman.h>
#include <unordered_map>
#include <link.h>
#include <set>
using namespace vf;

static const lib::Registry* REG; static int SET = 0;   /* which dependency set is currently injected (alternates per case: a later injection replaces the wipe function too) */
static constexpr size_t STKSZ = 256 * 1024; static uint8_t* STK; static ucontext_t MAINCTX, CTX; static std::function<void()>* G_FN;
static void tramp() { (*G_FN)(); }
static void on_stack(std::function<void()> fn) {
    memset(STK, 0xA5, STKSZ); G_FN = &fn; getcontext(&CTX); CTX.uc_stack.ss_sp = STK; CTX.uc_stack.ss_size = STKSZ; CTX.uc_link = &MAINCTX; makecontext(&CTX, tramp, 0); swapcontext(&MAINCTX, &CTX);
}
static void setup() {
    Case c; c.set("phase", "setup"); set_current(c); deps::inject(0); REG = &lib::Registry::get();
    STK = (uint8_t*)mmap(nullptr, STKSZ, PROT_READ | PROT_WRITE, MAP_PRIVATE | MAP_ANONYMOUS, -1, 0);
    for (auto& le : REG->langs) lib::lib_words(le);   /* built once, while set 0 is injected */
    g::WordClasses::get();
}
// every block the library hands to the injected free (seed release, and failure exits of load/decode) must have been
// wiped through the injected function first: its content is zero throughout AND, while it was allocated, the injected wipe
// function (which really wipes, and logs its calls) was called on a range that covers it - zeroing by other means (memset,
// a loop) leaves no such call.  (An earlier version injected a wipe function that writes 0xEE and looked for that mark; a
// library that legitimately obtains zeroed memory through the wipe function would have been disturbed by it.)
static size_t g_freed_seen = 0;
static std::string wiped_through_injected(const deps::Freed& fr, const char* call) {
    deps::Kit& k = deps::kit(SET);
    for (uint8_t b : fr.content) if (b != 0) return std::string("during ") + call + " a block reached the injected free without having been wiped (content " + vf::hex(fr.content).substr(0, 80) + "...)";
    for (size_t i = fr.mz_at_alloc; i < fr.mz_index && i < k.mz.size(); i++) { const deps::MzCall& mc = k.mz[i]; if ((uint8_t*)mc.ptr <= (uint8_t*)fr.ptr && (uint8_t*)mc.ptr + mc.len >= (uint8_t*)fr.ptr + fr.size) return ""; }
    return std::string("during ") + call + " a block reached the injected free zeroed, but the injected wipe function was never called on a range covering it: the wiping did not go through the injected function";
}
static std::string freed_blocks_wiped(const char* call) {
    deps::Kit& k = deps::kit(SET);
    for (; g_freed_seen < k.freed.size(); g_freed_seen++) { std::string m = wiped_through_injected(k.freed[g_freed_seen], call); if (!m.empty()) return m; }
    return "";
}
// Writable static storage that the objects of the library contribute to the executable (taken from the linker map by the
// driver: <exe>.libstatics, see vf::StaticGuard).  Only these regions are searched: the harness's own statics contain English
// prose (messages) that can coincide with twelve bytes of an English phrase - an earlier version searched the whole data
// segment and raised two such false alarms in a thorough run.
static std::vector<std::pair<uint8_t*, size_t>> static_ranges() {
    static std::vector<std::pair<uint8_t*, size_t>> r; static bool init = false; if (init) return r; init = true;
    vf::StaticGuard& g = vf::static_guard(); g.load(); for (auto& reg : g.regions) r.emplace_back(reg.p, reg.n);
    return r;
}
struct Pat { std::string what; std::string bytes; size_t window; int idxw = 0; bool stack_only = false; };   // stack_only: not searched for in static storage (pointers into the word tables live there legitimately)   // idxw: width of one index for index-array patterns
static bool window_ok(const Pat& p, size_t off);
static std::vector<Pat> G_ALL;   // every pattern of the current case, for the one static-storage scan at its end
// one pass over the writable static storage: every 8-byte value is looked up in a table of the patterns' window prefixes
static std::string scan_static(const std::vector<Pat>& pats) {
    std::unordered_map<uint64_t, std::pair<const Pat*, size_t>> tab;
    for (auto& p : pats) { if (p.bytes.size() < p.window || p.idxw == 2) continue; /* 8-byte windows of 16-bit indices carry too little entropy for a 250 KB haystack */ for (size_t off = 0; off + p.window <= p.bytes.size(); off++) { if (!window_ok(p, off)) continue; uint64_t v; memcpy(&v, p.bytes.data() + off, 8); tab.emplace(v, std::make_pair(&p, off)); } }
    if (tab.empty()) return "";
    for (auto& rg : static_ranges()) for (size_t i = 0; i + 8 <= rg.second; i++) { uint64_t v; memcpy(&v, rg.first + i, 8); auto it = tab.find(v); if (it == tab.end()) continue;
        const Pat& p = *it->second.first; size_t off = it->second.second; if (i + p.window <= rg.second && memcmp(rg.first + i, p.bytes.data() + off, p.window) == 0)
            return std::to_string(p.window) + " consecutive bytes of " + p.what + " (offset " + std::to_string(off) + ") are held in static storage of the library after the calls returned (writable data segment, offset " + std::to_string(i) + ")"; }
    return "";
}
// search the used part of the dead stack for any `window` consecutive bytes of each pattern
static std::string scan(const std::vector<Pat>& pats, const char* call) {
    { std::string fb = freed_blocks_wiped(call); if (!fb.empty()) return fb; }
    for (auto& p : pats) if (G_ALL.size() < 400 && !p.stack_only) G_ALL.push_back(p);
    size_t lo = 0; while (lo < STKSZ && STK[lo] == 0xA5) lo++; if (lo >= STKSZ) lo = STKSZ - 64; lo &= ~(size_t)63;
    for (auto& p : pats) { if (p.bytes.size() < p.window) continue;
        for (size_t off = 0; off + p.window <= p.bytes.size(); off++) {
            const uint8_t* w = (const uint8_t*)p.bytes.data() + off;
            if (!window_ok(p, off)) continue;
            void* f = memmem(STK + lo, STKSZ - lo, w, p.window);
            if (f) return std::string("after ") + call + " returned, " + std::to_string(p.window) + " consecutive bytes of " + p.what + " (offset " + std::to_string(off) + ") remain on the dead stack, " + std::to_string((STK + STKSZ) - (uint8_t*)f) + " bytes below the stack top";
        } }
    return "";
}
// entropy guard, so that a match cannot be a coincidence: byte patterns need >= 5 distinct values per 8 bytes; index windows need 4 distinct indices >= 16
static bool window_ok(const Pat& p, size_t off) {
    const uint8_t* w = (const uint8_t*)p.bytes.data() + off;
    if (p.idxw) { if (off % (size_t)p.idxw) return false; uint64_t v[4]; for (int i = 0; i < 4; i++) { v[i] = 0; memcpy(&v[i], w + i * p.idxw, (size_t)p.idxw); if (v[i] < 16) return false; for (int j = 0; j < i; j++) if (v[j] == v[i]) return false; } return true; }
    bool seen[256] = {false}; int distinct = 0; for (size_t i = 0; i < p.window; i++) if (!seen[w[i]]) { seen[w[i]] = true; distinct++; } return distinct * 8 >= (int)p.window * 5;
}
static std::string idx_bytes(const std::vector<unsigned>& v, int width) { std::string s; for (unsigned x : v) { uint64_t y = x; s.append((const char*)&y, (size_t)width); } return s; }
static void add_indices(std::vector<Pat>& pats, const std::vector<unsigned>& idx, const std::string& what) {
    pats.push_back({what + " (16-bit array)", idx_bytes(idx, 2), 8, 2}); pats.push_back({what + " (32-bit array)", idx_bytes(idx, 4), 16, 4}); pats.push_back({what + " (64-bit array)", idx_bytes(idx, 8), 32, 8});
}
// The word indices in pointer form: the addresses of the 16 words' strings inside the library's word table.  They are found
// empirically - the pointer-sized slots of the (opaque) language object that point at a NUL-terminated copy of a word of
// that language, everything bounds-checked against the executable's own image - so no knowledge of the object's layout is used.
static int image_cb(struct dl_phdr_info* info, size_t, void* data) {
    auto* r = (std::pair<uintptr_t, uintptr_t>*)data; uintptr_t lo = UINTPTR_MAX, hi = 0;
    for (int i = 0; i < info->dlpi_phnum; i++) if (info->dlpi_phdr[i].p_type == PT_LOAD) { uintptr_t a = info->dlpi_addr + info->dlpi_phdr[i].p_vaddr; lo = std::min(lo, a); hi = std::max(hi, a + info->dlpi_phdr[i].p_memsz); }
    *r = {lo, hi}; return 1;   /* the first object is the executable itself */
}
static const std::map<std::string, uintptr_t>& word_addresses(const lib::LangEntry& le) {
    static std::map<const polyseed_lang*, std::map<std::string, uintptr_t>> cache; auto it = cache.find(le.lang); if (it != cache.end()) return it->second;
    std::map<std::string, uintptr_t> m; std::pair<uintptr_t, uintptr_t> img{0, 0}; dl_iterate_phdr(image_cb, &img);
    const lib::LibWords& lw = lib::lib_words(le); uintptr_t base = (uintptr_t)le.lang;
    if (lw.ok && img.first <= base && base < img.second) { std::set<std::string> words(lw.w.begin(), lw.w.end());
        for (size_t i = 0; i < 2048 + 64 && base + (i + 1) * sizeof(uintptr_t) <= img.second; i++) { uintptr_t v; memcpy(&v, (const void*)(base + i * sizeof(uintptr_t)), sizeof v);
            if (v < img.first || v + 80 >= img.second) continue; size_t n = strnlen((const char*)v, 72); if (n == 0 || n >= 72) continue; std::string w((const char*)v, n); if (words.count(w)) m.emplace(w, v); } }
    return cache[le.lang] = m;
}
static void add_pointers(std::vector<Pat>& pats, const lib::LangEntry& le, const std::string& phrase_nfkd) {
    const auto& wa = word_addresses(le); std::string b; for (auto& t : lib::tokens(phrase_nfkd)) { auto it = wa.find(t); if (it == wa.end()) { W().ev.count("word-table-pointers-unavailable"); return; } uint64_t v = it->second; b.append((const char*)&v, 8); }
    if (b.size() == 128) { Pat p{"the addresses of the phrase's words in the word table (the 16 word indices in pointer form)", b, 32, 8}; p.stack_only = true; pats.push_back(p); W().ev.count("word-table-pointers-searched"); }
}
static std::vector<unsigned> indices_of(const lib::LangEntry& le, const std::string& phrase_nfkd) {
    static std::map<const polyseed_lang*, std::map<std::string, unsigned>> cache; auto& m = cache[le.lang];
    if (m.empty()) { const lib::LibWords& lw = lib::lib_words(le); if (lw.ok) for (unsigned i = 0; i < 2048; i++) m[lw.w[i]] = i; }
    std::vector<unsigned> v; for (auto& t : lib::tokens(phrase_nfkd)) { auto it = m.find(t); if (it == m.end()) return {}; v.push_back(it->second); } return v;
}

// case: secret(19, high entropy) birthday ufeat lang coin pw(hex) mask(hex32) scenario
static std::string oracle(const Case& c) {
    SET = (int)(c.u("set") & 1); deps::inject(SET); deps::kit(1 - SET).reset_all();
    deps::Kit& k = deps::kit(SET); k.reset_all(); g_freed_seen = 0; G_ALL.clear(); Evidence& ev = W().ev; k.mz_mode = deps::MZ_WIPE; k.mz_log = true; polyseed_enable_features(7);
    const lib::LangEntry* le = REG->by_name(c.get("lang")); if (!le) return "";
    std::string sec = c.bytes("secret"); sec.resize(19, '\x5a'); std::string sec150 = sec; sec150[18] &= 0x3F; unsigned coin = (unsigned)c.u("coin") & 2047u, uf = (unsigned)c.u("ufeat") & 7u;
    std::string pw = c.bytes("pw"); pw = pw.substr(0, pw.find('\0')); std::string mask = c.bytes("mask"); mask.resize(32, '\x77');
    int scenario = (int)c.u("scenario"); std::string msg; std::vector<Pat> P;
    auto secret_pats = [&](const std::string& s19, const char* what) { P.push_back({what, s19, 8}); };
    // ---- create
    k.rand_bytes.assign(sec.begin(), sec.end()); k.clock = model::birthday_time((unsigned)c.u("birthday") & 1023u);
    static polyseed_data* seed; static int st; seed = nullptr;
    on_stack([&]() { st = polyseed_create(uf, &seed); });
    if (st != 0) return std::string("create returned ") + model::status_name(st);
    secret_pats(sec150, "the new seed's secret"); secret_pats(sec, "the random bytes");
    // coefficient vector of the seed (language-independent "word indices"), with and without the coin applied
    static char* out = (char*)malloc(POLYSEED_STR_SIZE); static size_t outlen;   /* heap, not static storage: see static_ranges() */
    on_stack([&]() { outlen = polyseed_encode(seed, le->lang, (polyseed_coin)coin, out); });
    std::string phrase(out, strnlen(out, POLYSEED_STR_SIZE)); std::string pn = model::nfkd(phrase);
    std::vector<unsigned> shown = indices_of(*le, pn); std::vector<unsigned> data = shown; if (data.size() == 16) data[1] ^= coin;
    // the create stack was overwritten by the encode call above (needed to learn the indices), so create is run again in isolation and scanned:
    { polyseed_data* s2 = nullptr; k.rand_bytes.assign(sec.begin(), sec.end()); k.rand_pos = 0; on_stack([&]() { st = polyseed_create(uf, &s2); }); std::vector<Pat> Q = P; if (data.size() == 16) { add_indices(Q, data, "the polynomial coefficients (word indices)"); } msg = scan(Q, "create"); polyseed_free(s2); if (!msg.empty()) return msg; }
    ev.count("call:create");
    // ---- encode
    on_stack([&]() { outlen = polyseed_encode(seed, le->lang, (polyseed_coin)coin, out); });
    { std::vector<Pat> Q = P; Q.push_back({"the phrase text (composed)", phrase, 12}); Q.push_back({"the phrase text (decomposed)", pn, 12}); if (shown.size() == 16) { add_indices(Q, shown, "the 16 word indices"); add_indices(Q, data, "the polynomial coefficients"); add_pointers(Q, *le, pn); } msg = scan(Q, "encode"); if (!msg.empty()) return msg + " [" + le->name_en + "]"; }
    ev.count("call:encode");
    // ---- decoders, every exit path
    auto decode_case = [&](const std::string& input, unsigned dcoin, bool expl, const polyseed_lang* lang, const char* label, int expect, bool armfail) -> std::string {
        static polyseed_data* d; static int dst; d = nullptr; std::string in = input; const polyseed_lang* lo = nullptr;
        if (armfail) k.fail_all = true;
        on_stack([&]() { dst = expl ? (int)polyseed_decode_explicit(in.c_str(), (polyseed_coin)dcoin, lang, &d) : (int)polyseed_decode(in.c_str(), (polyseed_coin)dcoin, &lo, &d); });
        k.fail_all = false;
        std::vector<Pat> Q = P; std::string inn = model::nfkd(in); Q.push_back({"the phrase text (as given)", in, 12}); Q.push_back({"the phrase text (decomposed)", inn, 12});
        std::vector<unsigned> ix = indices_of(*le, pn); if (ix.size() == 16) { add_indices(Q, ix, "the 16 word indices"); std::vector<unsigned> dx = ix; dx[1] ^= dcoin; add_indices(Q, dx, "the polynomial coefficients"); add_pointers(Q, *le, pn); }
        std::string m = scan(Q, label); if (dst == 0) polyseed_free(d);
        ev.count(std::string("exit:") + (expl ? "decode_explicit/" : "decode/") + model::status_name(dst)); (void)expect;
        return m.empty() ? m : m + " [" + le->name_en + ", status " + model::status_name(dst) + "]";
    };
    auto toks = lib::tokens(phrase);
    if (toks.size() == 16) {
        std::string p_ok = phrase, p_nfkd = lib::join(toks);
        std::vector<std::string> t15(toks.begin(), toks.end() - 1); std::vector<std::string> tl = toks; tl[15] = "zzzzq"; std::vector<std::string> ts = toks; if (ts[3] != ts[7]) std::swap(ts[3], ts[7]); else ts[3] = ts[8];
        struct D { std::string in; unsigned coin; const char* label; bool fail; bool lowmask; } ds[] = {
            {p_ok, coin, "decode (success)", false, false}, {p_nfkd, coin, "decode (decomposed input)", false, false}, {lib::join(t15), coin, "decode (word count error)", false, false}, {lib::join(tl), coin, "decode (language error)", false, false},
            {lib::join(ts), coin, "decode (checksum error)", false, false}, {p_ok, coin ^ 1u, "decode (wrong coin)", false, false}, {p_ok, coin, "decode (allocation failure)", true, false}, {p_ok, coin, "decode (unsupported features)", false, true}};
        int which = scenario % 8; // one failing path per case keeps the case cheap; success paths always
        for (int e = 0; e < 2; e++) for (int i : {0, 1, which}) {
            if (ds[i].lowmask) { if (!uf) continue; polyseed_enable_features(0); }
            msg = decode_case(ds[i].in, ds[i].coin, e == 1, le->lang, ds[i].label, 0, ds[i].fail); polyseed_enable_features(7); if (!msg.empty()) return msg;
        }
    }
    // ---- the ambiguous-phrase exit of automatic detection (16 characters common to both Chinese lists; no valid check word needed)
    {
        const auto& wc = g::WordClasses::get(); const lib::LangEntry* zs = REG->by_name("Chinese (Simplified)");
        if (zs && wc.zh_common.size() > 64) {
            const lib::LibWords& lw = lib::lib_words(*zs); SplitMix sm(fnv1a(sec) ^ coin); std::vector<std::string> t; std::vector<unsigned> ix;
            if (lw.ok) { for (int i = 0; i < 16; i++) { unsigned x = (unsigned)wc.zh_common[sm.below((uint32_t)wc.zh_common.size())]; ix.push_back(x); t.push_back(lw.w[x]); }
                std::string amb = lib::join(t); static polyseed_data* d; static int dst; d = nullptr; const polyseed_lang* lo = nullptr;
                on_stack([&]() { dst = (int)polyseed_decode(amb.c_str(), (polyseed_coin)coin, &lo, &d); });
                std::vector<Pat> Q; Q.push_back({"the phrase text (ambiguous Chinese phrase)", amb, 12}); add_indices(Q, ix, "the 16 word indices");
                msg = scan(Q, "decode (multiple languages)"); if (dst == 0) polyseed_free(d); if (!msg.empty()) return msg + " [status " + model::status_name(dst) + "]";
                ev.count(std::string("exit:decode/") + model::status_name(dst)); }
        }
    }
    // ---- store / load (every exit path) / keygen / getters
    static uint8_t* stg = (uint8_t*)malloc(32); on_stack([&]() { polyseed_store(seed, stg); }); msg = scan(P, "store"); if (!msg.empty()) return msg; ev.count("call:store");
    {
        lib::Image img; memcpy(img.data(), stg, 32); lib::Image variants[5] = {img, img, img, img, img}; variants[1][30] ^= 1; variants[2][(scenario & 4) ? 31 : 28] |= 0x80; variants[3][29] = 0; const char* labels[5] = {"load (success)", "load (checksum error)", "load (format error, padding or footer)", "load (format error, byte 29)", "load (allocation failure)"};
        for (int i : {0, 1 + scenario % 4}) { static polyseed_data* l; static int lst; l = nullptr; if (i == 4) k.fail_all = true; on_stack([&]() { lst = polyseed_load(variants[i].data(), &l); }); k.fail_all = false;
            std::vector<Pat> Q = P; if (data.size() == 16) add_indices(Q, data, "the polynomial coefficients"); msg = scan(Q, labels[i]); if (lst == 0) polyseed_free(l); if (!msg.empty()) return msg; ev.count(std::string("exit:load/") + model::status_name(lst)); }
        if (uf) { polyseed_enable_features(0); static polyseed_data* l; static int lst; l = nullptr; on_stack([&]() { lst = polyseed_load(img.data(), &l); }); polyseed_enable_features(7); std::vector<Pat> Q = P; if (data.size() == 16) add_indices(Q, data, "the polynomial coefficients"); msg = scan(Q, "load (unsupported features)"); if (lst == 0) polyseed_free(l); if (!msg.empty()) return msg; ev.count(std::string("exit:load/") + model::status_name(lst)); }
    }
    { static uint8_t* key = (uint8_t*)malloc(64); on_stack([&]() { polyseed_keygen(seed, (polyseed_coin)coin, 32, key); }); msg = scan(P, "keygen"); if (!msg.empty()) return msg; ev.count("call:keygen"); }
    { static uint64_t bd; static unsigned ft; static int en; on_stack([&]() { bd = polyseed_get_birthday(seed); ft = polyseed_get_feature(seed, 7); en = polyseed_is_encrypted(seed); }); msg = scan(P, "getters"); if (!msg.empty()) return msg; }
    // ---- crypt
    {
        k.kdf_mode = deps::KDF_FIXED; memcpy(k.kdf_fixed, mask.data(), 32); std::string pwc = pw;
        on_stack([&]() { polyseed_crypt(seed, pwc.c_str()); });
        lib::Image after = lib::store(seed); std::string newsec((const char*)after.data() + 10, 19);
        std::vector<Pat> Q = P; Q.push_back({"the encryption mask", mask, 8}); Q.push_back({"the password (as given)", pw, 8}); Q.push_back({"the password (decomposed)", model::nfkd(pw), 8}); Q.push_back({"the encrypted seed's secret", newsec, 8});
        { model::Seed ms = lib::abstract(seed); auto co = model::pack(ms); std::vector<unsigned> cv(co.begin(), co.end()); (void)cv; }
        msg = scan(Q, "crypt"); if (!msg.empty()) return msg; ev.count("call:crypt"); P.push_back({"the encrypted seed's secret", newsec, 8});
    }
    // ---- free: block wiped through the injected function right before it is handed to free
    {
        size_t f0 = k.freed.size(); polyseed_data* p = seed; on_stack([&]() { polyseed_free(seed); }); msg = scan(P, "free"); if (!msg.empty()) return msg;
        if (k.freed.size() != f0 + 1 || k.freed.back().ptr != p) return "free(seed) did not hand the seed block to the injected free";
        { std::string wm = wiped_through_injected(k.freed.back(), "free(seed)"); if (!wm.empty()) return wm; }
        ev.count("call:free");
    }
    if (deps::kit(1 - SET).mz_calls) return "the wipe function of a dependency set that is no longer injected was called " + std::to_string(deps::kit(1 - SET).mz_calls) + " times (and the injected one " + std::to_string(k.mz_calls) + " times)";
    ev.count(SET ? "dependency-set:B" : "dependency-set:A");
    { std::string sm = scan_static(G_ALL); if (!sm.empty()) return sm; ev.count("static-storage-scanned"); }
    ev.eval(); ev.nt(c); ev.count("lang:" + le->name_en); ev.sample(le->name_en, c);
    return "";
}

static void run() {
    setup(); Args& a = W().args;
    rc_run("c16-wipe", a.n(4000, 80000), 100, [&]() {
        Case c; c.set("secret", hex(*rc::gen::noShrink(vf::bytes(19)))); c.set("birthday", (uint64_t)*g::birthday()); c.set("ufeat", *in_range<unsigned>(0, 8)); c.set("lang", REG->at(*g::lang_index()).name_en); c.set("coin", (uint64_t)*g::coin());
        std::string pw = *rc::gen::element<std::string>("", "correct horse battery staple", "contrase\xc3\xb1""a-segura-\xc3\xa9\xc3\xa1", "\xe3\x83\x91\xe3\x82\xb9\xe3\x83\xaf\xe3\x83\xbc\xe3\x83\x89""0123456789"); auto tail = *rc::gen::noShrink(vf::bytes(12)); for (auto b : tail) pw.push_back((char)('a' + b % 26));
        c.set("pw", hex(pw)); c.set("mask", hex(*rc::gen::noShrink(vf::bytes(32)))); c.set("scenario", *in_range<unsigned>(0, 64)); c.set("set", *in_range<unsigned>(0, 2));
        set_current(c); std::string m = oracle(c); if (!m.empty()) VF_FAIL(c, m);
    });
}
int main(int argc, char** argv) { return worker_main(argc, argv, "C16", Hooks{run, [](const Case& c) { setup(); return oracle(c); }}); }
