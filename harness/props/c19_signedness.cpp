// C19 — results do not depend on whether plain char is signed.  The same generated script is executed
// in ONE process against the -fsigned-char objects and the -funsigned-char objects (all global symbols
// of the latter renamed u_* with objcopy), each with its own dependency-kit instance; transcripts must
// be identical.
#include "gen.hpp"
using namespace vf;

extern "C" {
void u_polyseed_inject(const polyseed_dependency*); int u_polyseed_get_num_langs(void); const polyseed_lang* u_polyseed_get_lang(int);
const char* u_polyseed_get_lang_name(const polyseed_lang*); const char* u_polyseed_get_lang_name_en(const polyseed_lang*); int u_polyseed_enable_features(unsigned);
polyseed_status u_polyseed_create(unsigned, polyseed_data**); void u_polyseed_free(polyseed_data*); uint64_t u_polyseed_get_birthday(const polyseed_data*); unsigned u_polyseed_get_feature(const polyseed_data*, unsigned);
void u_polyseed_keygen(const polyseed_data*, polyseed_coin, size_t, uint8_t*); size_t u_polyseed_encode(const polyseed_data*, const polyseed_lang*, polyseed_coin, polyseed_str);
polyseed_status u_polyseed_decode(const char*, polyseed_coin, const polyseed_lang**, polyseed_data**); polyseed_status u_polyseed_decode_explicit(const char*, polyseed_coin, const polyseed_lang*, polyseed_data**);
void u_polyseed_store(const polyseed_data*, polyseed_storage); polyseed_status u_polyseed_load(const polyseed_storage, polyseed_data**); void u_polyseed_crypt(polyseed_data*, const char*); int u_polyseed_is_encrypted(const polyseed_data*);
}
struct Api {
    const char* name; int kit;
    decltype(&polyseed_inject) inject; decltype(&polyseed_get_num_langs) num_langs; decltype(&polyseed_get_lang) get_lang; decltype(&polyseed_get_lang_name_en) name_en; decltype(&polyseed_enable_features) enable;
    decltype(&polyseed_create) create; decltype(&polyseed_free) free_; decltype(&polyseed_get_birthday) birthday; decltype(&polyseed_get_feature) feature; decltype(&polyseed_keygen) keygen; decltype(&polyseed_encode) encode;
    decltype(&polyseed_decode) decode; decltype(&polyseed_decode_explicit) decode_x; decltype(&polyseed_store) store; decltype(&polyseed_load) load; decltype(&polyseed_crypt) crypt; decltype(&polyseed_is_encrypted) is_enc;
};
static Api SIGNED{"signed-char build", 0, polyseed_inject, polyseed_get_num_langs, polyseed_get_lang, polyseed_get_lang_name_en, polyseed_enable_features, polyseed_create, polyseed_free, polyseed_get_birthday, polyseed_get_feature, polyseed_keygen, polyseed_encode, polyseed_decode, polyseed_decode_explicit, polyseed_store, polyseed_load, polyseed_crypt, polyseed_is_encrypted};
static Api UNSIGNED{"unsigned-char build", 1, u_polyseed_inject, u_polyseed_get_num_langs, u_polyseed_get_lang, u_polyseed_get_lang_name_en, u_polyseed_enable_features, u_polyseed_create, u_polyseed_free, u_polyseed_get_birthday, u_polyseed_get_feature, u_polyseed_keygen, u_polyseed_encode, u_polyseed_decode, u_polyseed_decode_explicit, u_polyseed_store, u_polyseed_load, u_polyseed_crypt, u_polyseed_is_encrypted};

static const polyseed_lang* find_lang(const Api& a, const std::string& name) { int n = a.num_langs(); for (int i = 0; i < n; i++) { const polyseed_lang* l = a.get_lang(i); if (name == a.name_en(l)) return l; } return nullptr; }
static std::string lang_name(const Api& a, const polyseed_lang* l) { return l ? a.name_en(l) : "(null)"; }

struct Info { bool nonascii = false; int decodes = 0; };
// executes the script of case c against one build; returns the transcript (one line per observation)
static std::vector<std::string> transcript(const Api& a, const Case& c, Info* info) {
    std::vector<std::string> T; deps::Kit& k = deps::kit(a.kit); k.reset_all(); k.kdf_mode = deps::KDF_MIX; k.kdf_key_salt = 77; k.lenient = c.u("lenient") != 0; k.norm_passthrough = c.u("passthrough") != 0;   /* a normaliser that copies: U+3000, NBSP, composed letters reach the library as typed */
    polyseed_dependency d = deps::make_set(a.kit); a.inject(&d); a.enable(7);
    std::string sec = c.bytes("secret"); sec.resize(19, '\0'); k.rand_bytes.assign(sec.begin(), sec.end()); k.clock = model::birthday_time((unsigned)c.u("birthday") & 1023u);
    polyseed_data* s = nullptr; int st = a.create((unsigned)c.u("ufeat") & 7u, &s); T.push_back(std::string("create ") + model::status_name(st)); if (st != 0) return T;
    auto image = [&](polyseed_data* p) { polyseed_storage b; a.store(p, b); return hex(b, 32); };
    T.push_back("image " + image(s));
    const polyseed_lang* L = find_lang(a, c.get("lang")); const polyseed_lang* L2 = find_lang(a, c.get("lang2")); if (!L) { T.push_back("language missing"); a.free_(s); return T; }
    unsigned coin = (unsigned)c.u("coin") & 2047u; polyseed_str buf; size_t n = a.encode(s, L, (polyseed_coin)coin, buf); std::string phrase(buf, strnlen(buf, POLYSEED_STR_SIZE));
    T.push_back("encode " + std::to_string(n) + " " + hex(phrase));
    // inputs derived from this build's own phrase
    auto toks = lib::tokens(phrase); std::vector<std::pair<std::string, std::string>> inputs; inputs.push_back({"as-encoded", phrase}); inputs.push_back({"decomposed", model::nfkd(phrase)});
    if (toks.size() == 16) {
        std::vector<std::string> comp, strip, abbr, abbr_acc; for (auto& t : toks) { comp.push_back(model::nfc(t)); std::string sm = model::strip_marks(t); strip.push_back(sm); auto cps = model::codepoints(sm); if (cps.size() > 4) cps.resize(4); abbr.push_back(model::utf8(cps));
            auto full = model::codepoints(t); std::vector<uint32_t> keep; size_t letters = 0; for (auto cp : full) { if (!model::is_mark(cp)) { if (letters == 4) break; letters++; } keep.push_back(cp); } abbr_acc.push_back(model::utf8(keep)); }
        inputs.push_back({"composed-ascii-space", lib::join(comp)}); inputs.push_back({"composed-ideographic-space", lib::join(comp, "\xe3\x80\x80")}); inputs.push_back({"decomposed-ideographic-space", lib::join(toks, "\xe3\x80\x80")});
        inputs.push_back({"accents-dropped", lib::join(strip)}); inputs.push_back({"abbreviated", lib::join(abbr)}); inputs.push_back({"abbreviated-accents-kept", lib::join(abbr_acc)}); inputs.push_back({"abbreviated-composed", model::nfc(lib::join(abbr_acc))});
        std::string mut = c.bytes("mut"); mut.resize(8, '\0');
        { auto t = comp; t[(uint8_t)mut[0] % 16] += "\xcc\x81"; inputs.push_back({"extra-accent", lib::join(t)}); }
        { auto t = comp; t[(uint8_t)mut[1] % 16] = std::string(1, (char)(0x80 | (uint8_t)mut[2])) + t[(uint8_t)mut[1] % 16]; inputs.push_back({"stray-high-byte", lib::join(t)}); }
        { auto t = toks; std::swap(t[(uint8_t)mut[3] % 16], t[(uint8_t)mut[4] % 16]); inputs.push_back({"swapped", lib::join(t)}); }
        { auto t = comp; t[(uint8_t)mut[5] % 16] = "\xc3\xa9t\xc3\xa9"; inputs.push_back({"foreign-word", lib::join(t)}); }
        { auto t = comp; t.pop_back(); inputs.push_back({"15-words-nbsp", lib::join(t, "\xc2\xa0")}); }
        inputs.push_back({"separators-removed", lib::join(comp, "")}); inputs.push_back({"separators-removed-decomposed", lib::join(toks, "")});
    }
    inputs.push_back({"bom-prefixed", "\xef\xbb\xbf" + phrase}); inputs.push_back({"zwsp-prefixed", "\xe2\x80\x8b" + model::nfkd(phrase)}); inputs.push_back({"nbsp-suffixed", phrase + "\xc2\xa0"});
    inputs.push_back({"raw", c.bytes("raw").substr(0, c.bytes("raw").find('\0'))});
    for (auto& in : inputs) {
        for (unsigned char ch : in.second) if (ch >= 0x80) info->nonascii = true;
        for (unsigned dc : {coin, coin ^ 1u}) {
            const polyseed_lang* lo = nullptr; polyseed_data* dsd = nullptr; int ds = a.decode(in.second.c_str(), (polyseed_coin)dc, &lo, &dsd); info->decodes++;
            T.push_back("decode[" + in.first + "," + std::to_string(dc) + "] " + model::status_name(ds) + (ds == 0 ? " lang=" + lang_name(a, lo) + " image=" + image(dsd) : "")); if (ds == 0) a.free_(dsd);
            for (const polyseed_lang* lx : {L, L2}) { if (!lx) continue; polyseed_data* x = nullptr; int xs = a.decode_x(in.second.c_str(), (polyseed_coin)dc, lx, &x); T.push_back("decode_explicit[" + in.first + "," + std::to_string(dc) + "," + lang_name(a, lx) + "] " + model::status_name(xs) + (xs == 0 ? " image=" + image(x) : "")); if (xs == 0) a.free_(x); }
            if (dc != coin && in.first != "as-encoded") break;
        }
    }
    // password encryption with a non-ASCII password, key derivation
    std::string pw = c.bytes("pw"); pw = pw.substr(0, pw.find('\0')); for (unsigned char ch : pw) if (ch >= 0x80) info->nonascii = true;
    k.kdf.clear(); a.crypt(s, pw.c_str()); T.push_back("crypt image=" + image(s) + " kdf=" + (k.kdf.size() == 1 ? lib::kdf_str(k.kdf[0]) : "calls:" + std::to_string(k.kdf.size())));
    k.kdf.clear(); uint8_t key[32]; a.keygen(s, (polyseed_coin)coin, 32, key); T.push_back("keygen kdf=" + (k.kdf.size() == 1 ? lib::kdf_str(k.kdf[0]) : "calls:" + std::to_string(k.kdf.size())) + " key=" + hex(key, 32));
    T.push_back("birthday " + std::to_string(a.birthday(s)) + " feature " + std::to_string(a.feature(s, 7)) + " enc " + std::to_string(a.is_enc(s)));
    { polyseed_storage b; a.store(s, b); polyseed_data* l = nullptr; int ls = a.load(b, &l); T.push_back(std::string("load ") + model::status_name(ls) + (ls == 0 ? " image=" + image(l) : "")); if (ls == 0) a.free_(l); }
    a.free_(s); T.push_back("live-blocks " + std::to_string(k.live.size()) + " ledger-errors " + std::to_string(k.ledger_errors.size()));
    return T;
}

static std::string oracle(const Case& c) {
    Evidence& ev = W().ev; Info i1, i2; auto ts = transcript(SIGNED, c, &i1); auto tu = transcript(UNSIGNED, c, &i2);
    size_t n = std::min(ts.size(), tu.size());
    for (size_t i = 0; i < n; i++) if (ts[i] != tu[i]) return "results differ between char signedness settings at step " + std::to_string(i) + ": -fsigned-char gives [" + ts[i].substr(0, 400) + "], -funsigned-char gives [" + tu[i].substr(0, 400) + "]";
    if (ts.size() != tu.size()) return "transcripts have different lengths";
    ev.eval(); ev.count("lang:" + c.get("lang")); if (c.u("passthrough")) ev.count("normaliser:copies-its-input"); ev.count("decodes", (uint64_t)i1.decodes);
    for (auto& l : ts) { if (l.rfind("decode[", 0) == 0) { size_t p = l.find("] "); std::string st = l.substr(p + 2, l.find(' ', p + 2) - p - 2); ev.count("decode-status:" + st); } }
    if (i1.nonascii) { ev.nt(c); ev.sample(c.get("lang"), c); } else ev.count("trivial(ascii-only)");
    return "";
}

static void run() {
    Args& a = W().args; { Case c; c.set("phase", "setup"); set_current(c); }
    model::Golden::get(); deps::inject(0); const lib::Registry& REG = lib::Registry::get();
    rc_run("c19-scripts", a.n(4000, 150000), 100, [&]() {
        Case c; c.set("secret", hex(*g::secret19())); c.set("birthday", (uint64_t)*g::birthday()); c.set("ufeat", *in_range<unsigned>(0, 8)); c.set("coin", (uint64_t)*g::coin());
        c.set("lang", *rc::gen::weightedOneOf<std::string>({{3, rc::gen::map(g::lang_index(), [&](int i) { return REG.at(i).name_en; })}, {3, rc::gen::element<std::string>("Spanish", "French", "Japanese", "Korean", "Chinese (Simplified)", "Chinese (Traditional)")}}));
        c.set("lang2", REG.at(*g::lang_index()).name_en); c.set("mut", hex(*vf::bytes(8))); c.set("lenient", *in_range<unsigned>(0, 2)); c.set("passthrough", *rc::gen::weightedElement<unsigned>({{4, 0u}, {1, 1u}}));
        c.set("pw", hex(*rc::gen::element<std::string>("contrase\xc3\xb1""a", "contrasen\xcc\x83""a", "\xe3\x83\x91\xe3\x82\xb9\xe3\x83\xaf\xe3\x83\xbc\xe3\x83\x89", "\xeb\xb9\x84\xeb\xb0\x80\xeb\xb2\x88\xed\x98\xb8", "mot de passe \xc3\xa9t\xc3\xa9", "plain ascii", "\xef\xac\x81\xef\xbc\xa1", "", "\xef\xbb\xbfpassword", "pass\xc2\xadword\xe2\x80\x8b", "\xc2\xb2\xc2\xbd")));
        auto raw = *rc::gen::container<std::vector<uint8_t>>(rc::gen::weightedOneOf<uint8_t>({{3, rc::gen::inRange<uint8_t>(0x20, 0x7F)}, {2, rc::gen::inRange<uint8_t>(0x80, 0xFF)}, {1, rc::gen::just<uint8_t>(0x20)}})); c.set("raw", hex(raw));
        set_current(c); std::string m = oracle(c); if (!m.empty()) VF_FAIL(c, m);
    });
}
int main(int argc, char** argv) { return worker_main(argc, argv, "C19", Hooks{run, [](const Case& c) { model::Golden::get(); return oracle(c); }}); }
