"""Static configuration of the checks: build variants, per-property plans, evidence texts."""

SAN = '-O1 -g -fno-omit-frame-pointer -fsanitize=address,undefined -fno-sanitize-recover=undefined'
VARIANTS = {
    # library build variants (flags go to the project's own CMakeLists.txt via a custom build type)
    'asan':    {'cc': 'clang', 'cflags': SAN, 'harness': 'asan'},
    'asan-nd': {'cc': 'clang', 'cflags': SAN + ' -DNDEBUG', 'harness': 'asan'},
    'fuzz':    {'cc': 'clang', 'cflags': SAN + ' -fsanitize=fuzzer-no-link', 'harness': 'fuzz'},
    'rel':     {'cc': 'gcc', 'cflags': '-O2 -DNDEBUG', 'harness': 'plain'},
    'sc':      {'cc': 'gcc', 'cflags': '-O2 -DNDEBUG -fsigned-char', 'harness': 'plain'},
    'uc':      {'cc': 'gcc', 'cflags': '-O2 -DNDEBUG -funsigned-char', 'harness': 'plain', 'rename': 'u_'},
    'tsan':    {'cc': 'clang', 'cflags': '-O1 -g -fsanitize=thread', 'harness': 'tsan'},
}
for cc in ('gcc', 'clang'):
    for o in ('O0', 'O1', 'O2', 'O3', 'Os'):
        VARIANTS[f'wipe-{cc}-{o}'] = {'cc': cc, 'cflags': f'-{o} -DNDEBUG', 'harness': 'wipe', 'ldflags': '-Wl,-z,now'}

HARNESS_FLAGS = {
    'asan':  {'cxx': 'clang++', 'cxxflags': '-std=gnu++17 ' + SAN, 'ldflags': '-fsanitize=address,undefined', 'libs': '-lrapidcheck -lutf8proc -lpthread'},
    'fuzz':  {'cxx': 'clang++', 'cxxflags': '-std=gnu++17 ' + SAN + ' -fsanitize=fuzzer-no-link', 'ldflags': '-fsanitize=fuzzer,address,undefined', 'libs': '-lutf8proc -lpthread'},
    'plain': {'cxx': 'g++', 'cxxflags': '-std=gnu++17 -O2 -g', 'ldflags': '', 'libs': '-lrapidcheck -lutf8proc -lpthread'},
    'tsan':  {'cxx': 'clang++', 'cxxflags': '-std=gnu++17 -O1 -g -fsanitize=thread', 'ldflags': '-fsanitize=thread', 'libs': '-lrapidcheck -lutf8proc -lpthread'},
    'wipe':  {'cxx': 'g++', 'cxxflags': '-std=gnu++17 -O1 -g', 'ldflags': '', 'libs': '-lrapidcheck -lutf8proc -lpthread'},
}

COMMON_ASSUME = [
    'clang/gcc, AddressSanitizer/UBSan and rapidcheck/libFuzzer behave as documented',
    'libutf8proc 2.8 (Unicode 14) is a correct NFC/NFKD implementation (cross-checked against Python unicodedata on the word-list alphabet at setup)',
    'x86-64 little-endian ABI only; big-endian / 32-bit targets cannot be built in this sandbox',
    'sampling: absence of a violation on the generated cases is not a proof, except for sub-domains listed under coverage.enumerated',
]

PROPS = {}

def prop(pid, **kw):
    kw.setdefault('level', 'exploration')
    kw.setdefault('engine', 'rapidcheck')
    kw['assumptions'] = COMMON_ASSUME + kw.get('assumptions', [])
    PROPS[pid] = kw

prop('C01', src='props/c01_roundtrip.cpp',
     plan={'quick': [{'variant': 'asan', 'workers': 16}],
           'thorough': [{'variant': 'asan', 'workers': 16}, {'variant': 'rel', 'workers': 16}]},
     rule='rapidcheck: (secret, birthday, enabled mask, user features, encrypted flag, coin, language, construction path create|load, keygen coin/size) from three sub-generators '
          '(uniform 80%; 15 data words drawn from the 1..48 longest words of ja/ko/fr/es 10%; 12-15 data words drawn from the 1275 indices where both Chinese lists hold the same character 10%). '
          'Oracle: encode -> decode_explicit(same coin, language) is OK and equal in store bytes, birthday, get_feature under 9 masks, is_encrypted and the recorded keygen KDF arguments; '
          'decode (auto) is OK with the same language and seed, or MULT_LANG only if decode_explicit in another registered language does not answer LANG. '
          'Non-trivial = coin>2 or user features or encrypted or language in {ja,ko,es,fr} or ambiguous or NFKD length >= 300; distinct = FNV-1a of the serialised case.',
     required_classes={'any': ['ambiguous(MULT_LANG)', 'long(internal>=300)', 'encrypted+userfeatures', 'coin>2', 'path:load', 'path:create']},
     assumptions=['seeds are built through create(+crypt) or load of the model image; a case whose construction fails is discarded and counted'])

PROPS['C01'].update(
    technique='property-based testing (rapidcheck): generated seeds x languages x coins, encode/decode round-trip oracle under ASan+UBSan with real NFC/NFKD',
    level_text='Randomised exploration with three biased generators (uniform, longest Korean/Japanese words, Chinese-overlap words); every case compares the decoded seed with the original in all observable respects and checks the auto-detection verdict model-free. Sampling only: 2^165 seeds cannot be enumerated, so the level is exploration.')

NOT_APPLICABLE = {}
MANIFEST_NOTES = 'All checks: ./check run <ID> --tier quick|thorough; VERIF_SEED selects the generator seed; evidence in /verif/evidence/<ID>.json; replay files under /verif/replays/<ID>/; committed regression cases under /verif/regress/<ID>/. See DESIGN.md.'
for _p in ['C%02d' % i for i in range(1, 21)]:
    if _p not in PROPS:
        NOT_APPLICABLE[_p] = 'check under construction in this round (see DESIGN.md section 3 for its design); not claimed until it runs clean on the unchanged tree'
