"""Static configuration of the checks: build variants, per-property plans, evidence texts."""

SAN = '-O1 -g -fno-omit-frame-pointer -fsanitize=address,undefined -fno-sanitize-recover=undefined'
VARIANTS = {
    # library build variants (flags go to the project's own CMakeLists.txt via a custom build type)
    'asan':    {'cc': 'clang', 'cflags': SAN, 'harness': 'asan'},
    'asan-nd': {'cc': 'clang', 'cflags': SAN + ' -DNDEBUG', 'harness': 'asan'},
    'fuzz':    {'cc': 'clang', 'cflags': SAN + ' -fsanitize=fuzzer-no-link', 'harness': 'fuzz'},
    'rel':     {'cc': 'gcc', 'cflags': '-O2 -DNDEBUG', 'harness': 'plain'},
    'sc':      {'cc': 'gcc', 'cflags': '-O2 -DNDEBUG -fsigned-char', 'harness': 'plain'},
    'uc':      {'cc': 'gcc', 'cflags': '-O2 -DNDEBUG -funsigned-char', 'harness': 'plain', 'rename': 'u_'},
    'tsan':    {'cc': 'clang', 'cflags': '-O1 -g -fsanitize=thread', 'harness': 'tsan'},
}
# coverage measurement of the library under the generators (tools/coverage.sh; not part of any registered check)
VARIANTS['cov'] = {'cc': 'gcc', 'cflags': '-O0 -g --coverage', 'harness': 'plain', 'ldflags': '--coverage'}
for cc in ('gcc', 'clang'):
    for o in ('O0', 'O1', 'O2', 'O3', 'Os'):
        VARIANTS[f'wipe-{cc}-{o}'] = {'cc': cc, 'cflags': f'-{o} -DNDEBUG', 'harness': 'wipe', 'ldflags': '-Wl,-z,now'}

HARNESS_FLAGS = {
    'asan':  {'cxx': 'clang++', 'cxxflags': '-std=gnu++17 ' + SAN, 'ldflags': '-fsanitize=address,undefined', 'libs': '-lrapidcheck -lutf8proc -lpthread'},
    'fuzz':  {'cxx': 'clang++', 'cxxflags': '-std=gnu++17 ' + SAN + ' -fsanitize=fuzzer-no-link', 'ldflags': '-fsanitize=fuzzer,address,undefined', 'libs': '-lutf8proc -lpthread'},
    'plain': {'cxx': 'g++', 'cxxflags': '-std=gnu++17 -O2 -g', 'ldflags': '', 'libs': '-lrapidcheck -lutf8proc -lpthread'},
    'tsan':  {'cxx': 'clang++', 'cxxflags': '-std=gnu++17 -O1 -g -fsanitize=thread', 'ldflags': '-fsanitize=thread', 'libs': '-lrapidcheck -lutf8proc -lpthread'},
    'wipe':  {'cxx': 'g++', 'cxxflags': '-std=gnu++17 -O1 -g', 'ldflags': '', 'libs': '-lrapidcheck -lutf8proc -lpthread'},
}

WRAP_LD = '-Wl,' + ','.join('--wrap=' + f for f in ('malloc', 'free', 'time', 'getenv', 'secure_getenv', 'rand', 'random', 'getrandom', 'getentropy', 'arc4random', 'arc4random_buf', 'clock_gettime', 'gettimeofday', 'fopen'))

COMMON_ASSUME = [
    'clang/gcc, AddressSanitizer/UBSan and rapidcheck/libFuzzer behave as documented',
    'libutf8proc 2.8 (Unicode 14) is a correct NFC/NFKD implementation (cross-checked against Python unicodedata on the word-list alphabet at setup)',
    'injected stand-ins are conforming but not forgiving: the normalisers own and clear the whole polyseed_str output before reading the input and return the byte length written; the KDF clears the key buffer before reading password and salt; the allocator hands the most recently freed block of the same size out again (poisoned under ASan while free); wiping really wipes. Changes that only misbehave with dependencies outside this contract (a normaliser returning something other than the length written, a wipe function that does not wipe) are not reported (DESIGN 9.11)',
    'x86-64 little-endian ABI only; big-endian / 32-bit targets cannot be built in this sandbox',
    'sampling: absence of a violation on the generated cases is not a proof, except for sub-domains listed under coverage.enumerated',
]

PROPS = {}

def VALUE_FUZZ(quick=30000, thorough=1500000, workers=8):
    # libFuzzer over value-level inputs (harness/fuzz/fuzz_values.cpp): comparison operands of the library guide the mutations (value profile)
    return {'variant': 'fuzz', 'workers': workers, 'fuzz': True, 'runs': {'quick': quick, 'thorough': thorough}, 'corpus': 'fuzz_values', 'fuzz_args': ['-use_value_profile=1', '-max_len=128'], 'timeout': 7200}

def prop(pid, **kw):
    kw.setdefault('level', 'exploration')
    kw.setdefault('engine', 'rapidcheck')
    kw['assumptions'] = COMMON_ASSUME + kw.get('assumptions', [])
    PROPS[pid] = kw

prop('C01', src='props/c01_roundtrip.cpp',
     plan={'quick': [{'variant': 'asan', 'workers': 16}],
           'thorough': [{'variant': 'asan', 'workers': 16}, {'variant': 'rel', 'workers': 16}]},
     rule='rapidcheck: (secret, birthday, enabled mask, user features, encrypted flag, coin, language, construction path create|load, keygen coin/size) from three sub-generators '
          '(uniform; 15 data words drawn from the 1..48 longest words of ja/ko/fr/es; 12-15 data words drawn from the 1275 indices where both Chinese lists hold the same character) and a fourth one: seeds patterned at the level of the 16 word indices (all data words equal, two values only, one value at several positions, runs, boundary indices 0/1/1023/1024/2047..., adjacent equal words, first = last, sparse bit patterns; coin equal to a shown word or its complement; last data word solved so that the check word is 0, 2047, equal to a data word or to the coin). '
          'Oracle: encode -> decode_explicit(same coin, language) is OK and equal in store bytes, birthday, get_feature under 9 masks, is_encrypted and the recorded keygen KDF arguments; '
          'decode (auto) is OK with the same language and seed, or MULT_LANG only if decode_explicit in another registered language does not answer LANG. The first case of every worker is a cold start: a child forked before the process has made any checksum-related call decodes phrases the parent creates afterwards, one per language. '
          'Non-trivial = coin>2 or user features or encrypted or language in {ja,ko,es,fr} or ambiguous or NFKD length >= 300; distinct = FNV-1a of the serialised case.',
     required_classes={'any': ['ambiguous(MULT_LANG)', 'long(internal>=300)', 'encrypted+userfeatures', 'coin>2', 'path:load', 'path:create', 'cold-start(decode is the first checksum-related call of a process)', 'gen:patterned-word-indices']},
     assumptions=['seeds are built through create(+crypt) or load of the model image; a case whose construction fails is discarded and counted'],
     technique='property-based testing (rapidcheck): generated seeds x languages x coins, encode/decode round-trip oracle under ASan+UBSan with real NFC/NFKD',
     level_text='Randomised exploration with three biased generators (uniform, longest Korean/Japanese words, Chinese-overlap words); every case compares the decoded seed with the original in all observable respects and checks the auto-detection verdict model-free. Sampling only: 2^165 seeds cannot be enumerated, so the level is exploration.')

prop('C02', src='props/c02_checksum.cpp',
     plan={'quick': [{'variant': 'asan', 'workers': 16}], 'thorough': [{'variant': 'asan', 'workers': 16, 'timeout': 14400}]},
     rule='(1) exhaustive arithmetic core: for every field element e (2048) and phrase position p (16) the phrase whose only non-zero data coefficient is e at p must validate with check word e*2^p (GF(2^11), x^11+x^2+1) and fail with two other check words; '
          '(2) rapidcheck phrases (seed x language x coin, words taken from the library via the coin-XOR table; one seed in six is patterned at the level of the word indices - equal words, boundary indices, check word equal to 0 / 2047 / a data word / the coin): every position x replacement word (all 2047 when full=1, every 8th / 64th otherwise), all <=120 swaps of unequal words, all 2048 check-word candidates, '
          'and the stored image with each of the 2047 other check values. Oracle: exactly CHECKSUM from decode_explicit, never OK from decode/load, exactly one validating check word. '
          'Each mutated phrase is one non-trivial case; distinct = (phrase case fingerprint, mutation number).',
     required_classes={'any': ['core', 'substitutions', 'swaps', 'checkword-candidates', 'images-with-altered-check-value']},
     technique='exhaustive enumeration of the GF(2048) doubling rule through the public decoder + property-based metamorphic testing (mutated phrase => CHECKSUM; unique check word)',
     level_text='The algebraic core (every field element at every Horner position) is enumerated completely through the public decoder; substitutions/transpositions/check-word uniqueness are explored on generated phrases (all 2047 substitutes per position for a sample of phrases). Exploration: phrases are sampled, the element x position table is exhaustive.')

prop('C03', src='props/c03_layout.cpp', src_by_variant={'fuzz': 'fuzz/fuzz_values.cpp'}, engine='rapidcheck + libFuzzer',
     plan={'quick': [{'variant': 'asan', 'workers': 16}, VALUE_FUZZ()], 'thorough': [{'variant': 'asan', 'workers': 16}, {'variant': 'rel', 'workers': 16}, VALUE_FUZZ()]},
     rule='(i) exhaustive: all payloads of weight 0, 1 and 2 over the 164 holdable payload bits (150 secret, 4 feature bits, 10 birthday bits; the reserved feature bit cannot be held by any seed) x every registered language x coins {0,1,1024,2047}; '
          '(ii) rapidcheck random (secret, birthday, features, coin, language, enabled mask), one case in six with seeds patterned at the level of the 16 word indices (all data words equal, two values only, one value at several positions, runs, boundary indices 0/1/1023/1024/2047..., adjacent equal words, first = last, sparse bit patterns; coin equal to a shown word or its complement; last data word solved so that the check word is 0, 2047, equal to a data word or to the coin). Oracle: polyseed_encode output is byte-equal to the phrase of the independent reference model '
          '(bit-indexed packing, carry-less GF check value, coin XOR on word 2, golden word list, specification separator, NFC for es/fr/ja/ko), returned length = strlen, store bytes 30-31 = LE16(0x7000|check); '
          'purity: same abstract seed via create and via load, after other encodes, gives the identical string. Every case is non-trivial (conformance); distinct = case fingerprint.',
     required_classes={'any': ['encrypted', 'userfeatures', 'birthday>511', 'coin:>=1024', 'purity:create-vs-load', 'purity:after-feature-mask-change']},
     technique='property-based conformance testing against an independent reference encoder (rapidcheck) + exhaustive enumeration of all weight<=2 payloads, which determine a bit-linear packing',
     level_text='Differential against a reference model written from the README, validated on the three published vectors. Weight<=2 payloads are enumerated completely for all languages (a bit-linear packing is determined by them); the rest is random sampling, hence exploration.')

prop('C05', src='props/c05_coin.cpp',
     plan={'quick': [{'variant': 'asan', 'workers': 16}], 'thorough': [{'variant': 'asan', 'workers': 16, 'timeout': 14400}]},
     rule='(1) exhaustive coin table: for k seeds (2 quick / 24 thorough, language rotating with the seed) every ordered pair (A,B), A != B, of the 2048 coins: decode_explicit(phrase_A, B) = CHECKSUM, decode_explicit(phrase_A, A) = OK and the same seed; for a 1/64 sample also decode(auto) != OK and phrases for A and B differ in word 2 only; '
          '(2) rapidcheck random (seed, language, A, B) with one-bit, complementary and +1024 differences weighted; one seed in six is patterned at the level of the word indices (equal words, boundary indices, coin A equal to a shown word, check word relations). Each (seed, language, A, B) is one non-trivial case.',
     required_classes={'any': ['rows', 'pairs', 'coin-pairs']},
     technique='exhaustive enumeration of all 2048x2047 ordered coin pairs per seed + property-based metamorphic testing (other coin => CHECKSUM, word-2-only difference)',
     level_text='All ordered coin pairs are enumerated for a few seeds per run; seeds and languages are sampled. Exploration.')

prop('C06', src='props/c06_storage.cpp', src_by_variant={'fuzz': 'fuzz/fuzz_values.cpp'}, engine='rapidcheck + libFuzzer',
     plan={'quick': [{'variant': 'asan', 'workers': 16}, VALUE_FUZZ()], 'thorough': [{'variant': 'asan', 'workers': 16}, {'variant': 'rel', 'workers': 16}, VALUE_FUZZ()]},
     rule='(1) exhaustive field sweeps around 3 valid images: each header byte x 255 values, bytes 8-9 x 65536 (old and recomputed check value), padding bits x 8 masks, byte 29 x 256, bytes 30-31 x 65536, every secret bit flip (old and recomputed check), and the same bytes in another order (magic / each field / whole image reversed in groups of 2, 4, 8, 16, 32 bytes, magic rotated, every transposition of two magic bytes, lower-case magic); '
          '(2) rapidcheck buffers: 1-6 simultaneous field mutations (with/without recomputed check), valid images under random masks, random buffers with a valid header/frame, uniform random; (3) seed round trips. '
          'Oracle: load status equals the model verdict with precedence FORMAT > CHECKSUM > UNSUPPORTED; OK implies store(load(buf)) == buf and equal getters; store bytes equal the model image; no block left allocated on failure; input unmodified. '
          'Non-trivial = buffer passes the header test; distinct = fingerprint of (buffer, mask).',
     required_classes={'any': ['verdict:OK', 'verdict:CHECKSUM', 'verdict:UNSUPPORTED', 'verdict:FORMAT', 'gen:padding:new-check', 'gen:bytes8-9:new-check', 'gen:reordered:magic', 'gen:reordered:whole-image', 'seed-roundtrip']},
     technique='property-based testing against a reference model of the 32-byte image (rapidcheck structured buffer generator) + exhaustive field-wise enumeration',
     level_text='Acceptance is decided against an independent model of the image for every enumerated/generated buffer; non-secret fields are swept exhaustively around valid images, the 2^256 buffer space is sampled. Exploration. Little-endian host only.')

prop('C07', src='props/c07_wordlists.cpp',
     plan={'quick': [{'variant': 'asan', 'workers': 16}, {'variant': 'rel', 'workers': 16}], 'thorough': [{'variant': 'asan', 'workers': 16}, {'variant': 'rel', 'workers': 16}]},
     exhaustive=True,
     rule='exhaustive: every published language x index 0..2047 x phrase position 1..16 (327680 placements): the token the library emits at that position equals the sha256-pinned published word byte for byte, and the phrase built from published words decodes (decode_explicit; decode as well in thorough) to exactly the seed with that coefficient (odd indices in word 3: UNSUPPORTED); '
          'plus per language: 2048 distinct NFKD words stable under NFC->NFKD, separator normalises to U+0020, first four accent-stripped letters pairwise distinct and no word of >= 4 letters a prefix of another (abbreviating languages), library index table (via coin XOR) identical to the published list; registry contains the ten published names. Every placement is non-trivial.',
     required_classes={'any': ['registry', 'decode-only(word3 odd)']},
     technique='exhaustive enumeration (all languages x indices x positions) against golden data, through encode and both decoders',
     level_text='The domain is finite (10 x 2048 x 16) and is enumerated completely on every run, in a sanitised build with the library self-test assertions enabled. Exhaustive exploration of the stated domain.')

prop('C04', src='props/c04_keygen.cpp', src_by_variant={'fuzz': 'fuzz/fuzz_values.cpp'}, engine='rapidcheck + libFuzzer',
     plan={'quick': [{'variant': 'asan', 'workers': 16}, VALUE_FUZZ()], 'thorough': [{'variant': 'asan', 'workers': 16}, {'variant': 'rel', 'workers': 16}, VALUE_FUZZ()]},
     rule='rapidcheck: (secret, birthday, features, coin, key size in {0,1,16,31,32,33,64,65,4096,SIZE_MAX/2}, path in {created, decoded from a random language, loaded, crypt applied twice}, key buffer = PROT_NONE page with a KDF stub that does not touch it | patterned buffer filled by the stub). '
          'Oracle: the KDF log holds exactly one call with pwlen 32, pw = secret||0^13, saltlen 32, salt = "POLYSEED key" 00 FF FF FF || LE32(coin) || LE32(birthday) || LE32(features) || 0^4, 10000 iterations, the caller\'s pointer and length; the buffer afterwards is exactly what the stub wrote; a neighbour seed differing in one ingredient gives different (pw, salt). '
          'Non-trivial = birthday>511 or coin>2 or features!=0 or path!=created or key size!=32.',
     required_classes={'any': ['path:created', 'path:decoded', 'path:loaded', 'path:crypt2', 'key:no-access-page', 'key:patterned', 'birthday>511', 'mask-changed-before-keygen']},
     technique='property-based testing (rapidcheck) with a recording KDF stub: every argument compared with the specification, key buffer on an inaccessible page',
     level_text='Every generated case checks all seven KDF arguments against the published formula and path-independence; the key buffer is either inaccessible (any library read/write faults) or compared byte-for-byte with the stub output. Sampling: exploration.')

prop('C10', src='props/c10_features.cpp',
     plan={'quick': [{'variant': 'asan', 'workers': 16}, {'variant': 'rel', 'workers': 16, 'scale': 0.5}], 'thorough': [{'variant': 'asan', 'workers': 16}, {'variant': 'rel', 'workers': 16}]},
     variant_flags={'rel': {'cxxflags': '-DVERIF_WRAP', 'ldflags': WRAP_LD}},
     rule='(1) exhaustive core: enabling argument in {0..7, 8, 16, 24, 0xF8|k, 0xFFFFFFF8|k} (27 values) x feature value 0..31 x create-argument with/without high bits x 2 languages, each through four entry points (create, load of the model image, decode_explicit and decode of the specification phrase) plus wrong-check-value variants (CHECKSUM must precede UNSUPPORTED); default state probed before the first enabling call; '
          '(2) rapidcheck histories of 1-6 enabling calls. Oracle: return = popcount(arg & 7); accepted iff f & ~(m|16) == 0 with m = last arg & 7, else UNSUPPORTED with no block left allocated; create stores exactly arg & 7; get_feature(q) = f & q & 7 for q in 0..31 and with high bits; is_encrypted = bit 4; features survive phrase/storage round trips; crypt toggles only bit 4. The gcc -O2 --wrap build repeats the cases with getenv/secure_getenv interposed: every environment variable the library might ask for holds a generated value (unset, 7, 4102444800, 1, 0, 5, yes, 2), so a mask taken from anywhere but the enabling call shows. Every case non-trivial.',
     required_classes={'any': ['default-state', 'create:accepted', 'create:refused', 'load:accepted', 'load:refused', 'decode_explicit:accepted', 'decode_explicit:refused', 'decode:accepted', 'decode:refused', 'reserved-kdf-bit', 'history>1', 're-injection-between-enabling-and-use', 'burst-of-enabling-calls', 'enabling-call-from-another-thread']},
     technique='exhaustive enumeration of (mask argument x feature value x entry point) + property-based histories of enabling calls against a feature-admission model',
     level_text='The finite core (27 enabling arguments x 32 feature values x 4 entry points) is enumerated completely on every run; histories of enabling calls and seed contents are sampled. Exploration with an exhaustive core.')

prop('C11', src='props/c11_birthday.cpp',
     plan={'quick': [{'variant': 'asan', 'workers': 16}, {'variant': 'rel', 'workers': 16, 'scale': 0.5}], 'thorough': [{'variant': 'asan', 'workers': 16}, {'variant': 'rel', 'workers': 16}]},
     variant_flags={'rel': {'cxxflags': '-DVERIF_WRAP', 'ldflags': WRAP_LD}},
     rule='(1) exhaustive boundary set: EPOCH + k*STEP + {-1,0,+1} for k = 0..1024 (3075 clocks) and 17 special values (0, 1, EPOCH-1, 2^31 and 2^32 neighbours, 2^63, 2^64-2, 2^64-1, range end); (2) rapidcheck clocks (in-range, month boundaries +-2, before the epoch, beyond the range, uniform 64-bit) followed by a random chain of encode/decode, store/load, crypt, auto-decode; one case in eight uses a clock that answers t on the first reading and a failure value afterwards (the birthday must be that of a delivered reading); in the gcc -O2 build libc time() is interposed at link time (--wrap) and the same clock values are delivered through the built-in default clock (time entry NULL), with getenv interposed as well (every variable asked for holds a generated value, e.g. 4102444800). '
          'Oracle (validity predicate): B = EPOCH + k*2629746 with k in 0..1023; in range B <= t < B + STEP; before the epoch and for 2^64-1 B = EPOCH; for every t >= EPOCH B <= t; B unchanged along the chain. Distinct = (t, chain, language).',
     required_classes={'any': ['in-range', 'before-epoch', 'after-range', 'time-error-value', 'step:crypt', 'step:store/load', 'step:encode/decode', 'default-clock(libc time interposed)']},
     technique='property-based testing (rapidcheck) of a validity predicate over injected clock values + exhaustive enumeration of all 1025 month boundaries on both sides',
     level_text='All month boundaries and the special clock values are enumerated; the remaining 2^64 clocks and the transformation chains are sampled. Exploration.')

prop('C12', src='props/c12_crypt.cpp', src_by_variant={'fuzz': 'fuzz/fuzz_values.cpp'}, engine='rapidcheck + libFuzzer',
     plan={'quick': [{'variant': 'asan', 'workers': 16}, VALUE_FUZZ()], 'thorough': [{'variant': 'asan', 'workers': 16}, {'variant': 'rel', 'workers': 16}, VALUE_FUZZ()]},
     rule='rapidcheck: (seed, password built from ASCII runs, accented Spanish/French/Korean/Japanese words in composed or decomposed form, compatibility characters, random scalar values, or empty; KDF mask fixed by the generator (weights on 00.., FF.., top bits of byte 18 set) or a keyed mix of (pw, salt); chain of 1-4 applications with the same / the other canonical form / a different password). '
          'Oracle per application: one KDF call with pw = NFKD(password) bytes and that length, salt "POLYSEED mask" 00 FF FF (16), 10000 iterations, key length 32; new store bytes = model (secret ^= mask[0..18], byte 18 &= 0x3F, encrypted bit toggled, rest unchanged, check value recomputed); even number of same-password applications restores the seed; the result loads, stores, encodes and decodes unchanged. '
          'Non-trivial = mask with a top bit of byte 18 set, or non-ASCII password, or chain >= 2. Passwords whose NFKD form exceeds the buffer are discarded (C14 covers them).',
     required_classes={'any': ['mask-top-bits-of-byte18-set', 'password:non-ascii', 'password:empty', 'password:nfkd>=256-bytes', 'password:has-other-canonical-form', 'chain>=2', 'involution-checked', 'wrong-password-used']},
     technique='property-based testing (rapidcheck) against a model of the mask application, with a recording/programmable KDF stub and real NFKD; involution and representation round-trips',
     level_text='Each generated application is compared with the model image and the recorded KDF arguments; involution and well-formedness follow per case. Sampling: exploration.')

prop('C08', src='props/c08_prefix.cpp',
     plan={'quick': [{'variant': 'asan', 'workers': 16}], 'thorough': [{'variant': 'asan', 'workers': 16}, {'variant': 'rel', 'workers': 16}]},
     rule='(i) exhaustive per word: every registered language x every word of the library\'s own index table (every 8th in the two Chinese lists in quick) x every prefix length 1..len x every subset of combining marks kept x NFD/NFC form, plus negative variants (prefix or word + a letter it does not continue with; word, 4-letter prefix with an extra combining mark inserted or appended, in NFD and NFC; in the languages that are not accent-blind also word/prefix with a foreign non-ASCII character; in the six abbreviating languages overlong tokens - a 0/1/3/4/5-letter or full prefix of the word followed by filler up to 255-261 bytes, and in Spanish/French the word or its abbreviation followed by 252-260 bytes of combining accents), each placed at word 2 of a valid library phrase through the coin XOR; '
          '(ii) rapidcheck phrases with all 16 tokens independently varied in permitted ways (prefix >= 4 letters, accents kept per subset, NFC/NFD, ideographic separator for Japanese). '
          'Oracle = index-free reference matcher from the property text: A = {w : t equals w, or t is a prefix of w with >= 4 letters} (letters compared accent-blind in es/fr, exact match in ja/ko/zh); A = {own word} => OK and same seed, A empty => LANG, A = {other word} => same outcome as that word typed in full. '
          'Non-trivial = token differs from the full NFKD word; distinct = (language, token, word).',
     required_classes={'any': ['rule:same-word', 'rule:no-word', 'rule:other-word', 'class:prefix>=4-last-letter-keeps-accent', 'class:prefix>=4', 'class:prefix<4', 'class:negative-suffix', 'class:composed-form-differs', 'class:decorated-with-combining-mark', 'class:decorated-with-foreign-character', 'class:overlong-token(~256 bytes)', 'class:overlong-token(accents)']},
     technique='exhaustive enumeration of token variants per word + property-based testing of mixed phrases (rapidcheck), against an index-free reference matcher',
     level_text='Every word of every list is enumerated with all prefix lengths, accent subsets and both normalisation forms against a reference matcher written from the property text; mixtures over 16 positions are sampled. Exploration with an exhaustive single-token core.')

FUZZ_ASSUME = ['libFuzzer campaigns are only approximately pinned by -seed/-runs (coverage feedback and corpus order); the saved artifact is the reproducible unit']

prop('C09', src='props/c09_detect.cpp', src_by_variant={'fuzz': 'fuzz/fuzz_api.cpp'}, engine='rapidcheck + libFuzzer',
     plan={'quick': [{'variant': 'asan', 'workers': 16}, {'variant': 'fuzz', 'workers': 16, 'fuzz': True, 'runs': {'quick': 40000, 'thorough': 2500000}}],
           'thorough': [{'variant': 'asan', 'workers': 16}, {'variant': 'fuzz', 'workers': 16, 'fuzz': True, 'runs': {'quick': 40000, 'thorough': 2500000}, 'timeout': 14400}]},
     rule='rapidcheck: (1) library phrases of every language put through 0-3 mutations (separator doubled/leading/trailing/replaced by ideographic, NBSP, tab, em space or nothing; token deleted, duplicated, emptied, abbreviated, suffixed, swapped, substituted, taken from another language; 17th token; other coin); '
          '(2) ambiguity builders: all 16 tokens accepted by two languages (both Chinese lists; shared 4-letter stems and words of en/es/fr/it/cs/pt), check word aimed at the first, the second or neither; (3) arbitrary Unicode, raw bytes, 13-18-word soups. '
          'libFuzzer: the same oracle in-process on byte-decoded inputs (raw string | word-level phrase description with mutations | password | 32-byte buffer), half of the workers from the committed seed corpus, half from an empty one. '
          'Oracle: with E[l] = decode_explicit(s, coin, l) and R = {l: E[l] not in {NUM_WORDS, LANG}}: decode = NUM_WORDS iff any (then every) E[l] is; LANG iff R empty; MULT_LANG iff |R| >= 2; else E[l] with that language and equal store bytes; '
          'NUM_WORDS iff the reference tokenizer (single U+0020 after NFKD, one trailing empty token dropped) does not give 16 tokens (strings whose NFKD form fits the buffer); an empty token is a language error; with every allocation failing only would-be OK/UNSUPPORTED outcomes become MEMORY; the lang_out variable starts as a registered language chosen from the input, and when some language recognises the string decode is repeated with lang_out pre-set to each such language (same outcome required). '
          'Non-trivial = |R| >= 1 or 15-17 tokens; distinct = fingerprint of (string, coin).',
     required_classes={'any': ['R=>=2/MULT_LANG', 'R=1/OK', 'R=1/CHECKSUM', 'R=0/LANG', 'R=0/NUM_WORDS', 'R>=2 with differing checksum verdicts', 'R>=3', 'with-prelude-of-same-language-decodes', 'gen:first-words-shared-rest-second-language:valid-in-second', 'tokens:15', 'tokens:17', 'with-allocation-failure', 'gen:ambiguous:valid-in-first', 'gen:ambiguous:valid-in-second', 'mode:structured-phrase', 'mode:raw-string']},
     assumptions=FUZZ_ASSUME,
     technique='property-based differential testing (rapidcheck: auto-detection vs explicit decoding in every language, reference tokenizer) + coverage-guided fuzzing (libFuzzer, ASan+UBSan) with the same oracle inside the target',
     level_text='The relation between the two decoders, the status precedence and the token-boundary rule are checked on every generated and fuzzed string; ambiguity builders make the multi-language outcomes common. Exploration over an infinite input space.')

prop('C14', src='props/c14_safety.cpp', src_by_variant={'fuzz': 'fuzz/fuzz_api.cpp'}, engine='libFuzzer + rapidcheck',
     plan={'quick': [{'variant': 'fuzz', 'workers': 16, 'fuzz': True, 'runs': {'quick': 50000, 'thorough': 4000000}}, {'variant': 'asan', 'workers': 16}],
           'thorough': [{'variant': 'fuzz', 'workers': 16, 'fuzz': True, 'runs': {'quick': 50000, 'thorough': 4000000}, 'timeout': 14400}, {'variant': 'asan', 'workers': 16}]},
     rule='libFuzzer (clang 14, ASan+UBSan, library assertions on): bytes decoded into (mode, coin, normaliser strict|lenient, allocation-failure switch, enabled mask) and a raw string | a word-level phrase description with 0-4 mutations (separators, deleted/duplicated/foreign/emptied/truncated tokens, 600-byte tokens, 200 combining accents) | a password | a 32-byte buffer; half the workers start from the committed seed corpus, half from nothing. '
          'rapidcheck grammar: strings whose raw or NFKD length is POLYSEED_STR_SIZE-3..+3 in eight shapes (ASCII padding, no-space run, accents after a stem, many short tokens, multi-byte padding, separators only, stray high bytes at the end, non-ASCII beyond the limit), random byte strings, word soups with stray bytes, 32-byte buffers; phrases and passwords; three ASCII strings of 2^31-1, 2^31+1 MiB and 2^32+1 MiB bytes (one 2 MiB block mapped repeatedly) given to both decoders and to crypt. '
          'Oracle: no sanitizer report, assertion or signal; every status is documented for that function; the input (in an exactly-sized heap block) is unchanged; after a failed call no block is allocated, after success exactly one, gone after free; crypt leaves a loadable seed and passes <= POLYSEED_STR_SIZE-1 password bytes to the KDF; each input finishes (libFuzzer: 30 s per input; rapidcheck: a 60 s per-case watchdog dumps the case; either is re-run alone 3x by the driver before it counts). '
          'Non-trivial = reaches word lookup (>= 16 tokens) or length within 8 of the buffer size or a byte >= 0x80; distinct = fingerprint of the input.',
     required_classes={'any': ['raw-length-within-8-of-buffer-size', 'nfkd-length-within-8-of-buffer-size', 'normaliser-truncated', 'giant-input(>=2GiB)', 'password', 'load:OK', 'load:FORMAT', 'load:MEMORY', 'mode:structured-phrase', 'mode:raw-string', 'mode:password', 'length-near-buffer-size', 'invalid-utf8']},
     assumptions=FUZZ_ASSUME + ['"terminates" is decided as a per-input time bound, not a termination proof'],
     technique='coverage-guided fuzzing (libFuzzer + ASan + UBSan, structure-aware byte decoding) + property-based grammar of boundary-length strings (rapidcheck); safety/totality oracle in-process',
     level_text='Sanitised, assertion-enabled builds are driven by coverage-guided fuzzing and a boundary-length grammar; every call is judged for memory safety, status range, input immutability and allocator balance. Exploration: no absence proof.')

prop('C13', src='props/c13_model.cpp', engine='rapidcheck (stateful)',
     plan={'quick': [{'variant': 'asan-nd', 'workers': 16}, {'variant': 'asan', 'workers': 16, 'part': 'exhaustive'}, {'variant': 'rel', 'workers': 16, 'scale': 0.5}],
           'thorough': [{'variant': 'asan-nd', 'workers': 16}, {'variant': 'asan', 'workers': 16, 'scale': 0.3}, {'variant': 'rel', 'workers': 16}]},
     variant_flags={'rel': {'cxxflags': '-DVERIF_WRAP', 'ldflags': WRAP_LD}},
     rule='stateful model-based testing: sequences (length <= 60 quick / <= 200 thorough) over 14 operations on 4 slots - inject(set A|B, optional entries present or NULL), enable_features, create, load(image of a slot | wrong check | wrong header | reserved bit | padding bit | fresh seed), decode / decode_explicit (phrase just encoded from a slot: same coin, other coin, other language, abbreviated, trailing space, 17 tokens, 15 tokens, unknown word; or fixed malformed strings), crypt (6 passwords incl. composed/decomposed pair), encode, store, keygen, queries, free, free(NULL), arm allocation failure - '
          'plus exhaustive enumeration of all 66429 sequences of length <= 5 over 9 fixed-argument operations. Oracle: abstract model (enabled mask, current dependency set, slot -> (secret, birthday, features)): every status, phrase, KDF argument list and query equals the model\'s; after every step each live seed\'s store image equals the model image (canonical; other slots untouched), '
          'allocator ledger = live slots, no call lands in the non-current dependency set; fresh blocks are garbage-filled; the writable static storage that the library objects contribute to the executable (from the linker map, incl. thread-local sections) is snapshotted around every operation: only inject and enable_features may change it, any other call may write a byte once from zero (lazy initialisation) and never again. The output variables of create / load / decode start as NULL, as the dangling address of the seed freed last (which the recycling allocator hands out next), as another live seed or as a non-pointer; lang_out as NULL, each registered language or a non-pointer. In the --wrap build (gcc -O2 -DNDEBUG; malloc, free, time, getenv, secure_getenv, rand, random, getrandom, getentropy, arc4random, clock_gettime, gettimeofday, fopen interposed at link time) the process environment is a generated input: while an API call is exercised every variable the library asks for holds one of {unset, 7, 4102444800, 1, 0, 5, yes, 2}, and a call to any of the interposed environment / randomness / clock functions is itself reported (the model has no such input). Non-trivial = crypt followed by encode/store of that slot, or >= 2 live seeds, or a re-injection, or a failed constructor; distinct = fingerprint of the sequence.',
     required_classes={'quick': ['seq:crypt-then-encode/store', 'seq:>=2-live-seeds', 'seq:re-injection', 'seq:failed-constructor', 'seq:allocation-failure-observed', 'decode:OK', 'decode:CHECKSUM', 'decode:MULT_LANG', 'decode_explicit:LANG', 'load:UNSUPPORTED', 'load:FORMAT', 'create:UNSUPPORTED'], 'thorough': ['seq:crypt-then-encode/store', 'seq:>=2-live-seeds', 'seq:re-injection', 'seq:failed-constructor']},
     technique='stateful model-based property testing (rapidcheck operation sequences against an abstract seed model, invariant after every step) + exhaustive enumeration of all short sequences',
     level_text='Random walks over the whole API are compared step by step with an abstract model, and every sequence of length <= 5 over a reduced alphabet is enumerated. Exploration of an unbounded history space.')

prop('C15', src='props/c15_alloc.cpp', engine='rapidcheck (stateful, fault injection)', level='fault_enumeration',
     plan={'quick': [{'variant': 'asan', 'workers': 16}, {'variant': 'asan-nd', 'workers': 16, 'scale': 0.3}], 'thorough': [{'variant': 'asan', 'workers': 16}, {'variant': 'asan-nd', 'workers': 16}]},
     rule='fault enumeration: (1) cell scripts - every (entry point x outcome class) cell: create {ok, unsupported}, load {ok, format, checksum, unsupported}, decode and decode_explicit {ok, num-words, lang, mult-lang, checksum, unsupported} - each without a fault and with the 1st, 2nd or 3rd allocation request failing, x 40 language/coin variants, followed by free(NULL), a further create and an encode (subsequent calls behave normally); '
          '(2) rapidcheck operation sequences (create/load/decode/decode_explicit/crypt/encode/free/free(NULL)/enable_features/arm-failure) with a failure mask armed before about one call in six. Allocator: blocks come back filled with non-zero garbage; the k-th request after arming fails per bit mask; the most recently freed block of the same size is handed out again (poisoned under ASan while free). The output variables of create / load / decode start as NULL, as the dangling address of the seed freed last (which the recycling allocator hands out next), as another live seed or as a non-pointer; lang_out as NULL, each registered language or a non-pointer. '
          'Oracle (ledger invariant after every call): no unknown or repeated pointer reaches free; free(NULL) calls no dependency; blocks allocated = seeds live (a failed call leaves none, a successful one exactly one, released exactly once by polyseed_free with the block wiped); if the allocator was asked and returned NULL the status is MEMORY and no seed is produced; following calls work. '
          'Non-trivial = a call in which the allocator was asked while a failure was armed, or which exits through unsupported/format/checksum; distinct = fingerprint of the sequence.',
     required_classes={'any': ['cell:create/OK/armed', 'cell:create/OK/unarmed', 'cell:create/UNSUPPORTED/armed', 'cell:create/UNSUPPORTED/unarmed', 'cell:load/OK/armed', 'cell:load/OK/unarmed', 'cell:load/FORMAT/armed', 'cell:load/FORMAT/unarmed', 'cell:load/CHECKSUM/armed', 'cell:load/CHECKSUM/unarmed', 'cell:load/UNSUPPORTED/armed', 'cell:load/UNSUPPORTED/unarmed', 'cell:decode/OK/armed', 'cell:decode/OK/unarmed', 'cell:decode/NUM_WORDS/armed', 'cell:decode/NUM_WORDS/unarmed', 'cell:decode/LANG/armed', 'cell:decode/LANG/unarmed', 'cell:decode/MULT_LANG/armed', 'cell:decode/MULT_LANG/unarmed', 'cell:decode/CHECKSUM/armed', 'cell:decode/CHECKSUM/unarmed', 'cell:decode/UNSUPPORTED/armed', 'cell:decode/UNSUPPORTED/unarmed', 'cell:decode_explicit/OK/armed', 'cell:decode_explicit/OK/unarmed', 'cell:decode_explicit/NUM_WORDS/armed', 'cell:decode_explicit/NUM_WORDS/unarmed', 'cell:decode_explicit/LANG/armed', 'cell:decode_explicit/LANG/unarmed', 'cell:decode_explicit/CHECKSUM/armed', 'cell:decode_explicit/CHECKSUM/unarmed', 'cell:decode_explicit/UNSUPPORTED/armed', 'cell:decode_explicit/UNSUPPORTED/unarmed'] + ['seq:allocation-failure-observed', 'create:MEMORY', 'load:MEMORY', 'decode:MEMORY', 'decode_explicit:MEMORY']},
     technique='fault injection over operation sequences (rapidcheck stateful generation x allocation-failure schedules) with an allocator-ledger invariant; exhaustive over (entry point x outcome x fault) cells',
     level_text='Every (entry point x outcome x fault position) cell is populated on each run and the ledger invariant is checked after every call of every generated sequence under ASan. Fault enumeration: exhaustive over cells, sampled within.')

prop('C18', src='props/c18_deps.cpp', engine='rapidcheck (stateful)', src_by_variant={'fuzz': 'fuzz/fuzz_values.cpp'},
     plan={'quick': [{'variant': 'asan-nd', 'workers': 16}, {'variant': 'rel', 'workers': 16}, {'variant': 'asan', 'workers': 16, 'scale': 0.03}, VALUE_FUZZ()], 'thorough': [{'variant': 'asan-nd', 'workers': 16}, {'variant': 'rel', 'workers': 16}, {'variant': 'asan', 'workers': 16, 'scale': 0.03}, VALUE_FUZZ()]},
     variant_flags={'rel': {'cxxflags': '-DVERIF_WRAP', 'ldflags': WRAP_LD}},
     rule='(1) exhaustive: each of the 152 single-bit random-source outputs and their complements: the stored secret equals the delivered 19 bytes with the top two bits of the last dropped, 19 bytes are taken, the birthday is that of the injected clock; '
          '(2) rapidcheck injection histories: sequences in which about one operation in six is polyseed_inject with set A or B and each optional entry (time, alloc, free) present or NULL, the caller\'s struct overwritten with 0x41 right after the call, interleaved with create/load/decode/crypt/keygen/encode/free on 4 slots. '
          'Oracle: every dependency call during an operation lands in the set that is current (the other set\'s call counters do not move; the KDF of each set is keyed differently so a stale pointer also shows as a model mismatch); create takes 19 bytes in total from the current random source and asks the current clock; freed blocks are wiped; '
          'in the --wrap build (gcc -O2 -DNDEBUG, malloc/free/time interposed at link time) libc malloc/free/time are called inside an API window exactly when the corresponding entry is NULL; getenv, secure_getenv, rand, random, getrandom, getentropy, arc4random, clock_gettime, gettimeofday and fopen are interposed too - a call to any of them during an API call is reported (no other source of randomness, time or configuration is consulted), and getenv answers a generated value for every name. Non-trivial = sequence contains an injection; distinct = fingerprint of the sequence.',
     required_classes={'any': ['single-bit-random-output', 'pairwise-entry-replacement', 'random-source-writes-nothing', 'seq:re-injection-to-other-set', 'inject:opt=7', 'inject:opt=1', 'op:create', 'op:crypt']},
     assumptions=['with the time entry NULL the birthday is compared with the host clock (+-1 month)'],
     technique='stateful property-based testing of injection histories (rapidcheck) with recording dependency sets A/B and link-time interposition of libc malloc/free/time; exhaustive single-bit random outputs',
     level_text='Call logs of two independent dependency sets and interposed libc functions decide, per operation, which implementation was used; all single-bit random outputs are enumerated. Exploration over histories.')

prop('C17', src='props/c17_bound.cpp',
     plan={'quick': [{'variant': 'asan', 'workers': 16}], 'thorough': [{'variant': 'asan', 'workers': 16}, {'variant': 'rel', 'workers': 16}]},
     rule='(i) exhaustive: the 2048 words of every registered language as the library itself emits them give per-position maxima (all indices; even indices only in word 3, whose low bit is the reserved feature bit; check word unconstrained) of three lengths - the decomposed phrase assembled inside encode (NFKD words + output separators), the output (NFC), the decomposed form the decoder handles - i.e. sound upper bounds over all 2048^15 word vectors, recorded in the evidence notes; '
          '(ii) witness search: all 15 data words = the longest word x 256 (quick) / 2048 (thorough) coins per language, then rapidcheck vectors drawn from the 1..40 longest words x coins. Oracle for every witness under ASan: encode returns strlen(output); all three lengths < POLYSEED_STR_SIZE; decode_explicit of the output is OK with an equal seed and the normaliser never truncated. '
          'Only concrete seeds are violations; a bound that is not below the buffer size without a witness is reported as a note. Non-trivial = witness whose longest form reaches 90% of its language\'s bound.',
     required_classes={'any': ['witness>=90%-of-bound', 'witness:Korean', 'witness:Japanese', 'bound:Korean', 'exact-bound-witness:Korean', 'exact-bound-witness:Japanese', 'exact-bound-witness:English', 'composed-output>=360-bytes', 'decomposed>=500-bytes']},
     technique='exhaustive enumeration of word lengths (sound bound over all word vectors) + property-based witness search over extremal seeds (rapidcheck) under ASan',
     level_text='The bound is decided by enumeration of all 20480 words (a sound upper bound for every word vector) and confirmed by encoding/decoding extremal witness seeds under ASan. Exploration with an exhaustive bound computation.')

WIPE_VARIANTS = [f'wipe-{cc}-{o}' for cc in ('gcc', 'clang') for o in ('O0', 'O1', 'O2', 'O3', 'Os')]
prop('C16', src='props/c16_wipe.cpp',
     plan={'quick': [{'variant': v, 'workers': 1, 'scale': 1.0} for v in WIPE_VARIANTS], 'thorough': [{'variant': v, 'workers': 1} for v in WIPE_VARIANTS]},
     rule='rapidcheck: (full-entropy 19-byte secret, birthday, user features, language, coin, password with a 12-letter random tail, 32-byte mask, scenario) x ten plain builds (gcc and clang at -O0 -O1 -O2 -O3 -Os, linked -z now). Each API call - create, encode, decode and decode_explicit (success with composed and decomposed input, plus one of: word-count error, language error, checksum error, wrong coin, allocation failure, unsupported features), store, load (success plus one of checksum/format/format/allocation failure, and unsupported), keygen, getters, crypt, free - runs on a dedicated 256 KiB stack pre-filled with 0xA5; '
          'afterwards the dead stack is searched for any 8 consecutive bytes of the secret (old and new), the random bytes, the mask, the password (raw and NFKD), any 12 consecutive bytes of the phrase (NFC and NFKD), and any 4 consecutive word indices / polynomial coefficients as 16-, 32- or 64-bit arrays. The injected wipe function really wipes and logs its calls: every block handed to the injected free during any call (seed release and the failure exits of load/decode) must be entirely zero AND covered by a logged wipe call made while it was allocated (zeroing by memset or a loop leaves no such call). At the end of each case the writable static storage of the executable (.data/.bss, where the statically linked library keeps its own statics; the harness keeps its copies on the heap or in TLS) is searched once for all patterns of the case. '
          'Every case is non-trivial (all calls handle secret items); distinct = fingerprint of the case.',
     required_classes={'any': ['call:create', 'call:encode', 'call:crypt', 'call:free', 'static-storage-scanned', 'exit:decode/OK', 'exit:decode/NUM_WORDS', 'exit:decode/LANG', 'exit:decode/CHECKSUM', 'exit:decode/MEMORY', 'exit:decode/UNSUPPORTED', 'exit:decode/MULT_LANG', 'exit:decode_explicit/OK', 'exit:decode_explicit/LANG', 'exit:load/OK', 'exit:load/CHECKSUM', 'exit:load/FORMAT', 'exit:load/MEMORY', 'exit:load/UNSUPPORTED']},
     assumptions=['memory inspection only: registers, caches and kernel copies are out of reach; compiler coverage is the ten listed builds', 'thresholds are 8 bytes / 12 phrase bytes / 4 indices: single spilled scalars are not demanded to be absent'],
     technique='property-based testing (rapidcheck) with a dead-stack residue scan on a dedicated context stack and inspection of the freed block, across ten compiler/optimisation builds',
     level_text='For every generated case each API function and exit path is executed on a patterned stack which is then searched for secret-derived byte patterns; the freed block is inspected at release time with a marking wipe function. Exploration over inputs and ten compiler configurations.')

prop('C19', src='props/c19_signedness.cpp',
     plan={'quick': [{'variant': 'sc', 'workers': 16}], 'thorough': [{'variant': 'sc', 'workers': 16}]},
     extra_libs={'sc': ['uc']},
     rule='rapidcheck scripts executed in one process against the gcc -fsigned-char objects and the gcc -funsigned-char objects (every global symbol renamed u_* by objcopy), each with its own dependency kit: create; encode in a generated language (non-Latin and accented languages weighted); decode and decode_explicit (two languages, right and wrong coin) of 16 inputs derived from the phrase - as encoded, decomposed, composed with ASCII / ideographic spaces, accents dropped, abbreviated to 4 letters with and without accents, abbreviated and recomposed, an extra combining accent, a stray high byte, swapped words, a foreign accented word, 15 words with NBSP - and a raw byte string; crypt with non-ASCII passwords; keygen; getters; store/load. '
          'One case in five injects, in both builds, a normaliser that copies its input instead of normalising (U+3000, NBSP and composed letters then reach the splitter and the word comparison as typed; the oracle is differential, so any deterministic dependency set is sound). '
          'Oracle (differential): the transcripts - statuses, phrases, store images, detected language names, full KDF argument logs, derived keys - are identical. Non-trivial = the script contains a non-ASCII byte in a phrase or password; distinct = case fingerprint.',
     required_classes={'any': ['decode-status:OK', 'decode-status:LANG', 'decode-status:CHECKSUM', 'decode-status:NUM_WORDS', 'lang:Spanish', 'lang:French', 'lang:Japanese', 'lang:Korean', 'lang:Chinese (Simplified)', 'normaliser:copies-its-input']},
     assumptions=['both signedness settings are produced with gcc on x86-64 (-fsigned-char / -funsigned-char); other ABIs where char is unsigned (ARM, PowerPC) are represented by the flag only'],
     technique='property-based differential testing (rapidcheck): identical generated scripts run against -fsigned-char and -funsigned-char builds linked into one process (objcopy symbol renaming), transcripts compared',
     level_text='Every generated script is executed against both builds and all observable results are compared; inputs concentrate on non-ASCII phrases and passwords in composed, decomposed, abbreviated and unaccented forms. Exploration.')

prop('C20', src='props/c20_threads.cpp', engine='rapidcheck + ThreadSanitizer', report_unreproduced=True,
     plan={'quick': [{'variant': 'tsan', 'workers': 12, 'cap_to_cores': True}], 'thorough': [{'variant': 'tsan', 'workers': 16, 'timeout': 14400}]},
     rule='rapidcheck thread scripts on a ThreadSanitizer build (clang -fsanitize=thread, halt_on_error): N in {2,4,8,16} threads start together and each runs its own generated operation sequence (create, load, decode, decode_explicit, crypt, encode, store, keygen, queries, free, allocation-failure arming; 10-50 operations) on its own seed objects; dependencies are injected and features enabled once before the threads start; the lock-free thread_local stubs yield (sched_yield or a short spin, per case) at every dependency call; output variables are pre-set as in C13 (lang_out to each registered language). '
          'Oracle: no ThreadSanitizer report; every thread\'s transcript (status counters, store image of each of its seeds after every step, last KDF arguments) equals the transcript of the same script executed alone afterwards. Non-trivial = at least two threads were in flight at the same time (relaxed atomic counter); distinct = fingerprint of the scripts.',
     required_classes={'any': ['overlapping(>=2 threads in flight)', 'threads:2', 'threads:8', 'threads:16', 'allocator:libc-default', 'allocator:injected', 'cold-start-under-contention']},
     assumptions=['ThreadSanitizer happens-before analysis over sampled schedules: no liveness guarantee, and a race needing an access pair the scripts never produce is missed', 'a TSan report is reported even if a replay of the same scripts does not reproduce it (schedules cannot be pinned)'],
     technique='property-based testing of concurrent schedules (rapidcheck-generated per-thread operation scripts, yielding stubs) under ThreadSanitizer, with serial-transcript equality',
     level_text='Schedules are sampled, not enumerated: ThreadSanitizer flags any pair of conflicting unsynchronised accesses that the scripts execute, and per-thread transcripts are compared with a serial run. Exploration.')

NOT_APPLICABLE = {}
MANIFEST_NOTES = 'All checks: ./check run <ID> --tier quick|thorough; VERIF_SEED selects the generator seed; evidence in /verif/evidence/<ID>.json; replay files under /verif/replays/<ID>/; committed regression cases under /verif/regress/<ID>/. See DESIGN.md.'
for _p in ['C%02d' % i for i in range(1, 21)]:
    if _p not in PROPS:
        NOT_APPLICABLE[_p] = 'check under construction in this round (see DESIGN.md section 3 for its design); not claimed until it runs clean on the unchanged tree'
