#!/bin/sh
# Re-runs, for every seeded change, the first check recorded as catching it, against a scratch worktree with the patch applied
# (REPO=<scratch worktree of /repo>, default /tmp/wt2).  Output: one line per change, "caught" or "SILENT".  Used after the
# machinery has changed, to make sure no earlier change has slipped out of reach.
R=${REPO:-/tmp/wt2}; cd /verif || exit 2
for d in seeded/*/; do
  n=$(basename $d); [ -f $d/meta.json ] || continue; case "$n" in ${SKIP:-__none__}) continue;; esac
  id=$(python3 -c "
import json,sys
m=json.load(open('$d/meta.json')); c=[k for k,v in m['checks_run_quick'].items() if v=='caught']
print(c[0] if c else '')")
  [ -z "$id" ] && { echo "$n -: not reported by design"; continue; }
  git -C $R checkout -q -- . ; git -C $R apply /verif/$d/patch.diff 2>/dev/null || { echo "$n $id: PATCH-DOES-NOT-APPLY"; continue; }
  VERIF_REPO=$R ./check run $id --tier quick >/tmp/reeval.out 2>&1; rc=$?
  git -C $R checkout -q -- .
  if [ $rc -ne 0 ] && grep -q "^VIOLATION" /tmp/reeval.out; then echo "$n $id: caught"; else echo "$n $id: SILENT (rc=$rc)"; fi
done
