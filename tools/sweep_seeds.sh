#!/bin/sh
# run every quick check under several VERIF_SEED values on the unchanged tree; any VIOLATION/WARNING/NOTE line is a defect of the machinery (or of the tree)
cd "$(dirname "$0")/.."
for seed in "$@"; do
  for id in $(python3 -c "import json;print(' '.join(c['property_id'] for c in json.load(open('MANIFEST.json'))['checks']))"); do
    out=$(VERIF_SEED=$seed ./check run $id --tier quick 2>&1); rc=$?
    echo "seed=$seed $(echo "$out" | grep -E "^$id ")  rc=$rc"
    echo "$out" | grep -E "^VIOLATION|^KNOWN|^WARNING|^INCONCLUSIVE|^NOTE|message=" | cut -c1-300
  done
done
