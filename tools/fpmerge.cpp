// Count distinct 64-bit fingerprints across worker files (evidence: distinct_nontrivial).
#include <cstdio>
#include <cstdint>
#include <vector>
#include <algorithm>
int main(int argc, char** argv) {
    std::vector<uint64_t> v;
    for (int i = 1; i < argc; i++) {
        FILE* f = fopen(argv[i], "rb"); if (!f) continue;
        uint64_t buf[8192]; size_t n;
        while ((n = fread(buf, 8, 8192, f)) > 0) v.insert(v.end(), buf, buf + n);
        fclose(f);
    }
    std::sort(v.begin(), v.end());
    size_t d = std::unique(v.begin(), v.end()) - v.begin();
    printf("%zu\n", d);
    return 0;
}
