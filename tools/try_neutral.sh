#!/bin/sh
# apply a behaviour-preserving refactoring to /repo, run EVERY check (quick), undo.  All must stay silent.
# REPO=<dir> runs against a scratch worktree instead of /repo (then the repository's own tests are built there with cmake).
P=$(readlink -f "$1"); cd /verif; echo "== neutral change: $P"
R=${REPO:-/repo}
git -C $R diff --quiet || { echo "$R dirty"; exit 2; }
git -C $R apply "$P" || exit 2
trap 'git -C $R apply -R "$P"; git -C $R checkout -- .' EXIT
if [ "$R" = /repo ]; then timeout 300 sh tools/run_baseline.sh >/dev/null 2>&1 && echo "baseline PASS" || echo "baseline FAIL"
else ( cmake -G Ninja -S $R -B $R/_nb -DCMAKE_BUILD_TYPE=Debug >/dev/null 2>&1 && cmake --build $R/_nb >/dev/null 2>&1 && timeout 300 $R/_nb/polyseed-tests | tail -1 | grep -q "All tests were successful" ) && echo "baseline PASS" || echo "baseline FAIL"; rm -rf $R/_nb; export VERIF_REPO=$R; fi
for id in $(python3 -c "import json;print(' '.join(c['property_id'] for c in json.load(open('MANIFEST.json'))['checks']))"); do
  out=$(./check run $id --tier quick 2>&1); rc=$?
  echo "$out" | grep -E "^VIOLATION|message=|^WARNING|^$id " | head -4
done
