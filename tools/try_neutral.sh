#!/bin/sh
# apply a behaviour-preserving refactoring to /repo, run EVERY check (quick), undo.  All must stay silent.
P=$(readlink -f "$1"); cd /verif; echo "== neutral change: $P"
git -C /repo diff --quiet || { echo "/repo dirty"; exit 2; }
git -C /repo apply "$P" || exit 2
trap 'git -C /repo apply -R "$P"; git -C /repo checkout -- .' EXIT
timeout 300 sh tools/run_baseline.sh >/dev/null 2>&1 && echo "baseline PASS" || echo "baseline FAIL"
for id in $(python3 -c "import json;print(' '.join(c['property_id'] for c in json.load(open('MANIFEST.json'))['checks']))"); do
  out=$(./check run $id --tier quick 2>&1); rc=$?
  echo "$out" | grep -E "^VIOLATION|message=|^WARNING|^$id " | head -4
done
