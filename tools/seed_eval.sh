#!/bin/sh
# usage: tools/seed_eval.sh <PROP> <i> <name> <check IDs...>
# Confirms a sub-agent's change in its scratch worktree (demo passes on HEAD, fails with the patch, repo tests pass),
# stores it as /verif/seeded/<name>/ and runs the listed checks against /repo with the patch applied (undone afterwards).
P=$1; I=$2; NAME=$3; shift 3
B=${SEEDBASE:-/tmp/seed}; W=$B/${SEEDDIR:-$P}; O=$B/${SEEDDIR:-$P}-out; D=/verif/seeded/$NAME   # SEEDDIR: agent directory when it is not named after the property
cd /verif || exit 2
git -C $W checkout -q -- . ; rm -rf $W/_b
sh $O/run_demo$I.sh >$B/$NAME.demo_clean.log 2>&1; r_clean=$?
git -C $W apply $O/patch$I.diff || { echo "$NAME: patch does not apply"; exit 2; }
( cmake -G Ninja -S $W -B $W/_b -DCMAKE_BUILD_TYPE=RelWithDebInfo >/dev/null 2>&1 && cmake --build $W/_b >/dev/null 2>&1 && $W/_b/polyseed-tests | tail -1 ) > $B/$NAME.tests.log 2>&1
tests_ok=$(grep -c "All tests were successful" $B/$NAME.tests.log)
sh $O/run_demo$I.sh >$B/$NAME.demo_patched.log 2>&1; r_patch=$?
git -C $W checkout -q -- . ; rm -rf $W/_b
echo "$NAME: demo on HEAD exit=$r_clean, repo tests with patch pass=$tests_ok, demo with patch exit=$r_patch"
if [ $r_clean -ne 0 ] || [ $tests_ok -ne 1 ] || [ $r_patch -eq 0 ]; then echo "$NAME: NOT CONFIRMED"; exit 3; fi
mkdir -p $D; cp $O/patch$I.diff $D/patch.diff; cp $O/note$I.txt $D/note.txt; cp $O/run_demo$I.sh $D/run_demo.sh; for f in $O/demo$I.c $O/demo$I.cpp; do [ -f $f ] && cp $f $D/; done
tail -5 $B/$NAME.demo_patched.log > $D/demo_output_with_patch.txt
git -C /repo diff --quiet || { echo "/repo dirty"; exit 2; }
git -C /repo apply $D/patch.diff || { echo "$NAME: patch does not apply to /repo"; exit 2; }
trap 'git -C /repo checkout -- .' EXIT
res=""
for id in "$@"; do
  out=$(./check run $id --tier quick 2>&1); rc=$?
  msg=$(echo "$out" | grep -a -m1 "message=" | sed 's/^ *//' | cut -c1-300)
  echo "   $id exit=$rc $msg"
  res="$res$id:$rc;"
done
git -C /repo checkout -- . ; trap - EXIT
python3 - "$P" "$NAME" "$res" "$r_clean" "$r_patch" <<'PY'
import json, sys
p, name, res, rc, rp = sys.argv[1:6]
d = '/verif/seeded/' + name
meta = {'breaks_property': p, 'source': 'independent sub-agent given only the property text and a scratch worktree',
        'needs_to_manifest': open(d + '/note.txt').read().strip(),
        'confirmed': {'demo_exit_on_HEAD': int(rc), 'demo_exit_with_patch': int(rp), 'repo_tests_with_patch': 'All tests were successful'},
        'checks_run_quick': {k: ('caught' if v != '0' else 'silent') for k, v in (x.split(':') for x in res.split(';') if x)},
        'what_was_run': 'tools/seed_eval.sh: git apply in the scratch worktree, cmake build, polyseed-tests, run_demo.sh; then git -C /repo apply, ./check run <ID> --tier quick, git -C /repo checkout -- .'}
json.dump(meta, open(d + '/meta.json', 'w'), indent=1, ensure_ascii=False)
PY
