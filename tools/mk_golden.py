#!/usr/bin/env python3
"""Snapshot the ten word lists of the pinned tevador/polyseed release into /verif/golden.

Run once against the pinned commit (git show <sha>:src/lang_*.c); the output is
committed and sha256-pinned in golden/SHA256SUMS.  It is *data*, the reference of
property C07 ("as published at the pinned release"); checks never regenerate it.
"""
import re, subprocess, sys, hashlib, os, json
REPO = sys.argv[1] if len(sys.argv) > 1 else '/repo'
SHA = sys.argv[2] if len(sys.argv) > 2 else 'HEAD'
OUT = os.path.join(os.path.dirname(os.path.abspath(__file__)), '..', 'golden')
files = ['en', 'jp', 'ko', 'es', 'fr', 'it', 'cs', 'pt', 'zh_s', 'zh_t']
def unescape(s):
    # the sources use raw UTF-8 plus (once) a \uXXXX escape
    return re.sub(r'\\u([0-9a-fA-F]{4})', lambda m: chr(int(m.group(1), 16)), s)
langs = []
sums = []
for code in files:
    src = subprocess.check_output(['git', '-C', REPO, 'show', f'{SHA}:src/lang_{code}.c']).decode('utf-8-sig')
    def field(name):
        m = re.search(r'\.' + name + r'\s*=\s*(?:u8)?"((?:[^"\\]|\\.)*)"', src)
        return unescape(m.group(1))
    body = src[src.index('.words'):]
    ws = [unescape(w) for w in re.findall(r'"((?:[^"\\]|\\.)*)"', body)]
    assert len(ws) == 2048, (code, len(ws))
    assert all('\\' not in w and '\n' not in w and ' ' not in w for w in ws)
    data = ('\n'.join(ws) + '\n').encode('utf-8')
    with open(os.path.join(OUT, code + '.txt'), 'wb') as f:
        f.write(data)
    sums.append((hashlib.sha256(data).hexdigest(), code + '.txt'))
    langs.append({'code': code, 'name_en': field('name_en'), 'name': field('name')})
# NOTE: separator / compose / prefix / accent columns are NOT read from the source;
# they come from the specification (README "Supported languages", property C03/C08 text).
SPEC = {
 'English': dict(sep=' ', compose=0, prefix=1, noaccent=0),
 'Japanese': dict(sep='　', compose=1, prefix=0, noaccent=0),
 'Korean': dict(sep=' ', compose=1, prefix=0, noaccent=0),
 'Spanish': dict(sep=' ', compose=1, prefix=1, noaccent=1),
 'French': dict(sep=' ', compose=1, prefix=1, noaccent=1),
 'Italian': dict(sep=' ', compose=0, prefix=1, noaccent=0),
 'Czech': dict(sep=' ', compose=0, prefix=1, noaccent=0),
 'Portuguese': dict(sep=' ', compose=0, prefix=1, noaccent=0),
 'Chinese (Simplified)': dict(sep=' ', compose=0, prefix=0, noaccent=0),
 'Chinese (Traditional)': dict(sep=' ', compose=0, prefix=0, noaccent=0),
}
with open(os.path.join(OUT, 'langs.tsv'), 'w', encoding='utf-8') as f:
    for l in langs:
        s = SPEC[l['name_en']]
        f.write('\t'.join([l['code'], l['name_en'], l['name'], s['sep'].encode('utf-8').hex(),
                           str(s['compose']), str(s['prefix']), str(s['noaccent'])]) + '\n')
data = open(os.path.join(OUT, 'langs.tsv'), 'rb').read()
sums.append((hashlib.sha256(data).hexdigest(), 'langs.tsv'))
with open(os.path.join(OUT, 'SHA256SUMS'), 'w') as f:
    for h, n in sums:
        f.write(f'{h}  {n}\n')
print('ok', len(langs))
