#!/usr/bin/env python3
import json, glob, sys, jsonschema
sch = json.load(open('/root/.vp/EVIDENCE.schema.json')); bad = 0
for f in sorted(glob.glob('/verif/evidence/*.json')):
    try:
        jsonschema.validate(json.load(open(f)), sch)
    except Exception as e:
        bad += 1; print('INVALID', f, str(e)[:200])
print('evidence files valid' if not bad else f'{bad} invalid evidence files')
sys.exit(1 if bad else 0)
