#!/usr/bin/env python3
import json, glob, sys, os, jsonschema
ROOT = os.path.dirname(os.path.dirname(os.path.abspath(__file__)))   # the tree this script belongs to (a vp-run snapshot validates its own files)
sch = json.load(open('/root/.vp/EVIDENCE.schema.json')); bad = 0
for f in sorted(glob.glob(os.path.join(ROOT, 'evidence', '*.json'))):
    try:
        jsonschema.validate(json.load(open(f)), sch)
    except Exception as e:
        bad += 1; print('INVALID', f, str(e)[:200])
print('evidence files valid' if not bad else f'{bad} invalid evidence files')
sys.exit(1 if bad else 0)
