#!/usr/bin/env python3
"""Write the small committed seed corpus for harness/fuzz/fuzz_api.cpp: one valid phrase per
language in composed and decomposed form (raw-string mode), a password and two storage images.
Trailer layout (FuzzedDataProvider takes integrals from the END): ... [bool][mask][allocfail][lenient][coin hi][coin lo][mode]."""
import os, unicodedata, hashlib
ROOT = os.path.dirname(os.path.dirname(os.path.abspath(__file__)))
G = os.path.join(ROOT, 'golden')
OUT = os.path.join(ROOT, 'corpus', 'fuzz_api')
os.makedirs(OUT, exist_ok=True)
def mul2(x):
    x <<= 1
    return x ^ 0x805 if x & 0x800 else x
def check(c):
    acc = 0
    for i in range(1, 16):
        v = c[i]
        for _ in range(i):
            v = mul2(v)
        acc ^= v
    return acc
def pack(secret, birthday, features):
    bits = ''.join(f'{b:08b}' for b in secret[:18]) + f'{secret[18] & 0x3f:06b}'
    extra = (features << 10) | birthday
    c = [0] * 16
    for i in range(1, 16):
        c[i] = (int(bits[10 * (i - 1):10 * i], 2) << 1) | ((extra >> (15 - i)) & 1)
    c[0] = check(c)
    return c
def trailer(mode, coin=0, lenient=0, allocfail=0, mask=7, b=1):
    return bytes([b, mask, allocfail, lenient, coin >> 8, coin & 255, mode])
def put(name, data):
    open(os.path.join(OUT, name), 'wb').write(data)
n = 0
for line in open(os.path.join(G, 'langs.tsv'), encoding='utf-8'):
    code, name_en, name, sephex, compose, prefix, noacc = line.rstrip('\n').split('\t')
    words = open(os.path.join(G, code + '.txt'), encoding='utf-8').read().split('\n')[:2048]
    secret = hashlib.sha256(code.encode()).digest()[:19]
    c = pack(secret, 77, 0)
    sep = bytes.fromhex(sephex).decode()
    ph = sep.join(words[x] for x in c)
    for form in ('NFC', 'NFKD'):
        put(f'phrase-{code}-{form}', unicodedata.normalize(form, ph).encode() + trailer(0))
        n += 1
    # abbreviated / accent-free form where the language allows it
    if prefix == '1':
        ab = ' '.join(''.join(ch for ch in unicodedata.normalize('NFKD', words[x]) if not unicodedata.combining(ch))[:4] for x in c)
        put(f'phrase-{code}-abbrev', ab.encode() + trailer(0)); n += 1
put('password-1', 'contraseña パスワード'.encode() + trailer(3)); n += 1
secret = bytes(range(1, 20)); s18 = secret[:18] + bytes([secret[18] & 0x3f])
c = pack(s18, 5, 0)
img = b'POLYSEED' + (5).to_bytes(2, 'little') + s18 + b'\xff' + (0x7000 | c[0]).to_bytes(2, 'little')
put('image-valid', img + bytes([0]) + trailer(4)); n += 1
put('image-badcheck', img[:30] + bytes([img[30] ^ 1, img[31]]) + bytes([0]) + trailer(4)); n += 1
print('wrote', n, 'corpus files to', OUT)
