#!/bin/sh
# run every check of MANIFEST.json at the given tier (default quick), then validate the evidence files
TIER=${1:-quick}; cd "$(dirname "$0")/.."; fail=0
for id in $(python3 -c "import json;print(' '.join(c['property_id'] for c in json.load(open('MANIFEST.json'))['checks']))"); do
  out=$(./check run $id --tier $TIER 2>&1); rc=$?
  echo "$out" | grep -E "^VIOLATION|^KNOWN|^WARNING|^INCONCLUSIVE|^NOTE|^$id " ; [ $rc -ne 0 ] && fail=1
done
python3-vt tools/validate_evidence.py || fail=1
exit $fail
