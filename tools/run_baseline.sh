#!/bin/sh
# The repository's own suite (60 tests), built exactly like the baseline (RelWithDebInfo, no verification define).
set -e
B=${VERIF_BUILD:-/verif/build}/baseline.$$
rm -rf "$B"; mkdir -p "$B"
cmake -G Ninja -S "${VERIF_REPO:-/repo}" -B "$B" -DCMAKE_BUILD_TYPE=RelWithDebInfo >/dev/null
cmake --build "$B" >/dev/null
"$B/polyseed-tests"; rc=$?
rm -rf "$B"
exit $rc
