#!/bin/sh
# One-off measurement: line/branch coverage of /repo/src reached by the rapidcheck binaries of the given properties
# (gcc --coverage build of the library, asserts on).  usage: tools/coverage.sh C01 C08 C09 ...   Output: build/coverage/summary.txt
cd "$(dirname "$0")/.."; ROOT=$(pwd); OUT=$ROOT/build/coverage; rm -rf "$OUT"; mkdir -p "$OUT"
./check _buildlib cov >/dev/null || exit 1
LIBDIR=$(ls -d build/lib/cov-* | head -1); find "$LIBDIR" -name '*.gcda' -delete
for id in "$@"; do
  ./check _buildbin $id cov >/dev/null || exit 1
  exe=$(ls -t build/bin/$id-cov-* | head -1)
  for w in 0 1 2 3; do VERIF_ROOT=$ROOT VERIF_NO_ZYGOTE=1 $exe --tier quick --variant cov --out "$OUT" --seed 1 --worker $w --nworkers 16 --scale 0.3 --root $ROOT >/dev/null 2>&1; done
  echo "ran $id"
done
cd "$ROOT/$LIBDIR/CMakeFiles/polyseed_static.dir/src" && for f in polyseed.c lang.c gf.c storage.c features.c dependency.c; do gcov -b -o . $f.gcda 2>/dev/null | grep -A3 "File '/.*src/$f'" ; done > "$OUT/summary.txt"
for f in polyseed.c lang.c gf.c storage.c features.c dependency.c; do grep -n "#####" $f.gcov 2>/dev/null | grep -v "assert\|^\s*-" | sed "s/^/$f: /" ; done > "$OUT/uncovered.txt"
cat "$OUT/summary.txt"; echo "--- uncovered lines:"; cat "$OUT/uncovered.txt" | head -60
