#!/bin/sh
# usage: tools/try_mutant.sh <patch.diff> <ID> [<ID>...]   — apply a change to /repo, run the repo's own tests and the
# listed checks (quick tier), and undo the change straight afterwards.  Never commits anything in /repo.
P=$(readlink -f "$1"); shift
cd /verif
git -C /repo diff --quiet || { echo "/repo has uncommitted changes"; exit 2; }
git -C /repo apply "$P" || { echo "patch does not apply"; exit 2; }
trap 'git -C /repo checkout -- . ; git -C /repo status --short | grep -v _build' EXIT
if timeout 300 sh tools/run_baseline.sh >/dev/null 2>&1; then echo "baseline: PASS (mutant survives the repository's tests)"; else echo "baseline: FAIL (mutant is caught by the existing tests)"; fi
for id in "$@"; do
  out=$(VERIF_TIER=${TIER:-quick} ./check run $id --tier ${TIER:-quick} 2>&1); rc=$?
  echo "== $id exit=$rc"; echo "$out" | grep -E "^VIOLATION|message=|KNOWN|^C[0-9]+ " | head -${LINES_MAX:-4}
done
