#!/usr/bin/env python3
"""Regenerate /verif/MANIFEST.json from tools/propcfg.py (single source of truth) and validate it."""
import json, os, sys
ROOT = os.path.dirname(os.path.dirname(os.path.abspath(__file__)))
sys.path.insert(0, os.path.join(ROOT, 'tools'))
from propcfg import PROPS, NOT_APPLICABLE, MANIFEST_NOTES
checks = []
for pid in sorted(PROPS):
    c = PROPS[pid]
    checks.append({
        'property_id': pid,
        'quick_cmd': f'./check run {pid} --tier quick',
        'thorough_cmd': f'./check run {pid} --tier thorough',
        'evidence_file': f'/verif/evidence/{pid}.json',
        'replay_cmd_template': f'./check replay {pid} {{path}}',
        'engine': c.get('engine', 'rapidcheck'),
        'level_claimed': {'category': c['level'], 'text': c['level_text'], 'design_ref': c.get('design_ref', 'DESIGN.md section 3, ' + pid)},
        'level_note': c.get('level_note', 'Trusted: compilers and sanitizers, rapidcheck/libFuzzer, libutf8proc, the reference model (validated against the repository\'s published vectors) and the sha256-pinned golden word lists. Sampling gives no proof outside the enumerated sub-domains.'),
        'technique': c['technique'],
    })
m = {
    'version': 1,
    'setup_cmd': './check setup',
    'hooks': {
        'guard': 'POLYSEED_VERIF',
        'enable': 'none needed: every property is observed through the public API and the eight injected functions; the guard name is reserved, no source commit uses it',
        'baseline_off_cmd': 'sh /verif/tools/run_baseline.sh',
        'source_commits': [],
        'add_only': True,
    },
    'engines': [
        {'name': 'rapidcheck', 'path': '/verif/harness/props', 'serves_properties': sorted(p for p in PROPS if 'rapidcheck' in PROPS[p].get('engine', 'rapidcheck')), 'kind_free_text': 'property-based testing (rapidcheck 0.x, explicit TestParams from VERIF_SEED) plus exhaustive enumeration of small finite sub-domains, one process per core'},
        {'name': 'libFuzzer', 'path': '/verif/harness/fuzz', 'serves_properties': sorted(p for p in PROPS if 'libFuzzer' in PROPS[p].get('engine', '')), 'kind_free_text': 'coverage-guided fuzzing (clang 14 libFuzzer + ASan + UBSan) with the semantic oracle inside the target'},
    ],
    'checks': checks,
    'not_applicable': [{'property_id': k, 'reason': v} for k, v in sorted(NOT_APPLICABLE.items()) if k not in PROPS],
    'notes': MANIFEST_NOTES,
}
json.dump(m, open(os.path.join(ROOT, 'MANIFEST.json'), 'w'), indent=1)
try:
    import jsonschema
    jsonschema.validate(m, json.load(open('/root/.vp/MANIFEST.schema.json')))
    print('MANIFEST.json valid,', len(checks), 'checks,', len(m['not_applicable']), 'not applicable')
except ImportError:
    print('MANIFEST.json written (jsonschema not importable here)')
